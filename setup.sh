#!/bin/sh
# offline setup: verifies the interpreter and imports, self-tests the reference model
set -e
cd "$(dirname "$0")"
mkdir -p evidence replays
if grep -n "panoptica" vf/ref.py | grep -v '^[0-9]*:\s*#' | grep -E "^\s*[0-9]+:\s*(import|from)\s" ; then echo "ref.py must not import panoptica"; exit 1; fi
PYTHONPATH="$(pwd)" /venv/bin/python -B -m vf.selftest_ref
PYTHONPATH="$(pwd)" PANOPTICA_CITATION_REMINDER=false /venv/bin/python -B -c "from vf import pan; print('panoptica from', pan._pf)"
