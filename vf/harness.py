"""Driver: tiers, seeds, sharding over subprocesses, verdicts, evidence, replays,
known-finding classification.  See DESIGN.md 2.5."""

from __future__ import annotations

import hashlib
import importlib
import json
import os
import shutil
import struct
import subprocess
import sys
import tempfile
import time
import traceback

VERIF = os.path.dirname(os.path.dirname(os.path.abspath(__file__)))
PY = os.environ.get("VERIF_PYTHON", "/venv/bin/python")
MAX_VIOL_KEPT = 40
MAX_SAMPLES = 4


def jsonable(o):
    import numpy as np

    if isinstance(o, dict):
        return {str(k): jsonable(v) for k, v in o.items()}
    if isinstance(o, (list, tuple, set, frozenset)):
        return [jsonable(v) for v in o]
    if isinstance(o, np.ndarray):
        if o.size > 20000:
            # big volumes of the workloads are sparse: the non-zero voxels (at most 5000) identify the witness
            nz = np.argwhere(o != 0)
            return {"dtype": str(o.dtype), "shape": list(o.shape), "nonzero_total": int(len(nz)), "nonzero_coordinates": nz[:5000].tolist(),
                    "nonzero_values": o[tuple(nz[:5000].T)].tolist() if len(nz) else []}
        return {"dtype": str(o.dtype), "shape": list(o.shape), "data": o.tolist()}
    if isinstance(o, np.generic):
        return jsonable(o.item())
    if isinstance(o, float):
        if o != o:
            return "nan"
        if o in (float("inf"), float("-inf")):
            return "inf" if o > 0 else "-inf"
        return o
    if isinstance(o, (int, str, bool)) or o is None:
        return o
    if isinstance(o, bytes):
        return o.hex()
    return repr(o)


def h64(*parts) -> int:
    m = hashlib.blake2b(digest_size=8)
    for p in parts:
        if isinstance(p, bytes):
            m.update(p)
        else:
            m.update(repr(p).encode())
        m.update(b"|")
    return struct.unpack("<Q", m.digest())[0]


class Ctx:
    """what a shard accumulates"""

    def __init__(self, prop: str, tier: str, seed: int):
        self.prop, self.tier, self.seed = prop, tier, seed
        self.counters: dict = {}
        self.viol_count = 0
        self.violations: list = []
        self.hashes: set = set()
        self.samples: list = []
        self.errors: list = []
        self.case = None
        self.cases_run = 0

    def count(self, name: str, n: int = 1):
        self.counters[name] = self.counters.get(name, 0) + n

    def viol(self, kind: str, detail: dict, prop: str | None = None, features: dict | None = None):
        """record a violation of `prop` (default: the property under check)"""
        self.viol_count += 1
        self.count("viol:" + kind)
        if len(self.violations) < MAX_VIOL_KEPT:
            self.violations.append(
                {
                    "property": prop or self.prop,
                    "kind": kind,
                    "features": features or {},
                    "detail": jsonable(detail),
                    "case": jsonable(self.case),
                }
            )

    def nontrivial(self, *key):
        self.hashes.add(h64(*key))

    def sample(self, obj):
        if len(self.samples) < MAX_SAMPLES:
            self.samples.append(jsonable(obj))


def run_case_fresh(ctx: "Ctx", case: dict, timeout: float = 900.0):
    """runs one case of the current driver in a fresh interpreter (nothing has been constructed, cached or
    created on first use there yet) and merges what its monitors observed into ctx"""
    tmp = os.environ.get("VERIF_TMP") or tempfile.gettempdir()
    out = os.path.join(tmp, "fresh_%d_%d.json" % (os.getpid(), ctx.counters.get("fresh_interpreter_cases", 0)))
    env = dict(os.environ, VERIF_REPLAY_CASE=json.dumps(jsonable(case)), VERIF_SHARD_BUDGET="1e9")
    ctx.count("fresh_interpreter_cases")
    try:
        p = subprocess.run([PY, "-B", "-X", "faulthandler"] + own_flags() + ["-m", "vf.harness", "--shard", ctx.prop, ctx.tier, str(ctx.seed), "0", "1", out],
                           env=env, cwd=VERIF, capture_output=True, text=True, timeout=timeout)
    except subprocess.TimeoutExpired:
        ctx.errors.append({"case": jsonable(case), "tb": "fresh interpreter exceeded the wall-clock watchdog"})
        return None
    if not os.path.exists(out):
        ctx.errors.append({"case": jsonable(case), "tb": "fresh interpreter died (exit %s): %s" % (p.returncode, (p.stdout + p.stderr)[-1500:])})
        return None
    with open(out) as fh:
        res = json.load(fh)
    for k, v in res["counters"].items():
        if k != "evaluations" or True:
            ctx.count(k, v)
    for v in res["violations"]:
        ctx.viol_count += 1
        if len(ctx.violations) < MAX_VIOL_KEPT:
            v["case"] = jsonable(case)
            ctx.violations.append(v)
    ctx.viol_count += max(0, res["viol_count"] - len(res["violations"]))
    ctx.errors += res["errors"]
    hp = out + ".hashes"
    if os.path.exists(hp):
        with open(hp, "rb") as fh:
            b = fh.read()
        ctx.hashes.update(struct.unpack(f"<{len(b)//8}Q", b))
    return res


# ----------------------------------------------------------------------------- shard
def own_flags():
    """interpreter flags of this shard, for the helper processes it starts (like is compared with like)"""
    return ["-O"] * min(2, sys.flags.optimize)


def spread_families(cases):
    """every family of cases is spread evenly over the run (order inside a family is kept): when the time
    budget ends a run early on a loaded machine, it has seen the same share of every family instead of
    losing the families that happen to come last"""
    size, pos, order = {}, {}, {}
    for c in cases:
        f = c.get("fam") if isinstance(c, dict) else None
        size[f] = size.get(f, 0) + 1
    keyed = []
    for n, c in enumerate(cases):
        f = c.get("fam") if isinstance(c, dict) else None
        k = pos.get(f, 0)
        pos[f] = k + 1
        order.setdefault(f, len(order))
        # second item: the stripe (shard) the case belongs to -- by position inside its family, so that no
        # family ends up on a single shard
        keyed.append(((k + 0.5) / size[f], n, k + order[f], c))
    keyed.sort(key=lambda t: (t[0], t[1]))
    return [(stripe, c) for _, _, stripe, c in keyed]


def shard_main(argv):
    prop, tier, seed, idx, n, out = argv[0], argv[1], int(argv[2]), int(argv[3]), int(argv[4]), argv[5]
    import faulthandler

    faulthandler.enable()
    deadline = time.monotonic() + float(os.environ.get("VERIF_SHARD_BUDGET", "1e9"))
    if n >= 4 and idx == 2 and hasattr(os, "sched_setaffinity") and not os.environ.get("VERIF_REPLAY_CASE"):
        # one shard lives on a single CPU (containers, batch jobs with one core): code that sizes its work by the
        # CPUs it may use takes other paths there
        try:
            os.sched_setaffinity(0, {sorted(os.sched_getaffinity(0))[idx % len(os.sched_getaffinity(0))]})
        except OSError:
            pass
        # ... and reports one CPU, as a single-core host does (os.sched_getaffinity already does after pinning)
        os.cpu_count = lambda: 1
        try:
            import multiprocessing

            multiprocessing.cpu_count = lambda: 1
        except Exception:  # noqa: BLE001
            pass
        os.environ["VERIF_SINGLE_CPU"] = "1"
    ctx = Ctx(prop, tier, seed)
    mod = importlib.import_module("vf.props." + prop.lower())
    t0 = time.monotonic()
    try:
        if hasattr(mod, "setup"):
            mod.setup(ctx)
        replay = os.environ.get("VERIF_REPLAY_CASE")
        if replay:
            cases = [(0, json.loads(replay))]
            idx, n = 0, 1
        else:
            cases = spread_families(list(mod.cases(tier, seed)))
        for stripe, case in cases:
            if stripe % n != idx:
                continue
            if time.monotonic() > deadline:
                ctx.count("skipped_deadline")
                continue
            ctx.case = case
            ctx.cases_run += 1
            try:
                mod.run(case, ctx)
            except Exception:  # harness or library error outside a monitored call
                ctx.errors.append({"case": jsonable(case), "tb": traceback.format_exc()[-3000:]})
                if len(ctx.errors) > 20:
                    break
        ctx.case = None
        if tier == "thorough" and idx == 0 and not replay and prop in ("C02", "C03", "C04", "C05", "C06", "C07", "C14"):
            # the repository's own unit tests under the monitors (DESIGN.md 7.3)
            from vf import repo_tests

            ctx.case = {"fam": "repo_unit_tests_under_monitors"}
            repo_tests.run(ctx, prop)
            ctx.case = None
        if hasattr(mod, "teardown"):
            mod.teardown(ctx)
        _meta = sys.modules.get("vf.meta")
        if _meta is not None and _meta.PRIMED["primed"]:
            ctx.count("meta.judged_calls_on_an_evaluator_used_before_with_another_dimensionality", _meta.PRIMED["primed"])
    except Exception:
        ctx.errors.append({"case": None, "tb": traceback.format_exc()[-3000:]})
    res = {
        "counters": ctx.counters,
        "viol_count": ctx.viol_count,
        "violations": ctx.violations,
        "samples": ctx.samples,
        "errors": ctx.errors[:10],
        "n_errors": len(ctx.errors),
        "cases_run": ctx.cases_run,
        "wall_s": time.monotonic() - t0,
    }
    with open(out + ".hashes", "wb") as fh:
        fh.write(b"".join(struct.pack("<Q", h) for h in ctx.hashes))
    with open(out, "w") as fh:
        json.dump(res, fh)


# ----------------------------------------------------------------------------- known findings
def load_known():
    p = os.path.join(VERIF, "known_findings.json")
    if not os.path.exists(p):
        return []
    with open(p) as fh:
        return json.load(fh).get("entries", [])


def classify(viol: dict, known: list):
    """returns the matching *finding* entry (status == 'finding') or None.
    A finding entry matches on property, violation kind and every listed feature value --
    i.e. on the mechanism, never on a case hash or random value. 'fixed' entries match
    nothing."""
    for e in known:
        if e.get("status") != "finding":
            continue
        if e["property"] != viol["property"]:
            continue
        if "kind" in e and e["kind"] != viol["kind"]:
            continue
        feats = viol.get("features", {})
        if all(feats.get(k) == v for k, v in e.get("features", {}).items()):
            return e
    return None


# ----------------------------------------------------------------------------- parent
def run_check(prop: str, tier: str, seed: int, replay: str | None = None) -> int:
    t0 = time.monotonic()
    mod = importlib.import_module("vf.props." + prop.lower())
    nshards = int(os.environ.get("VERIF_SHARDS", getattr(mod, "SHARDS", {}).get(tier, 16)))
    nshards = max(1, min(nshards, os.cpu_count() or 1))
    budget = getattr(mod, "BUDGET_S", {"quick": 240, "thorough": 3000})[tier]
    if os.environ.get("VERIF_BUDGET"):  # screening runs: a shorter (or longer) exploration budget per check
        budget = float(os.environ["VERIF_BUDGET"])
    tmp = tempfile.mkdtemp(prefix=f"verif_{prop}_")
    env = dict(os.environ)
    env["PYTHONPATH"] = VERIF + os.pathsep + env.get("PYTHONPATH", "")
    env["PYTHONHASHSEED"] = env.get("PYTHONHASHSEED", "0")
    env["VERIF_SHARD_BUDGET"] = str(budget)
    env["VERIF_TMP"] = tmp
    env["OMP_NUM_THREADS"] = "1"
    env["OPENBLAS_NUM_THREADS"] = "1"
    env.setdefault("PANOPTICA_CITATION_REMINDER", "false")
    if getattr(mod, "MALLOC_DEBUG", False):
        env["PYTHONMALLOC"] = "debug"
    replay_case = None
    if replay:
        with open(replay) as fh:
            rp = json.load(fh)
        replay_case = rp["case"]
        env["VERIF_REPLAY_CASE"] = json.dumps(replay_case)
        tier, seed = rp.get("tier", tier), rp.get("seed", seed)
        nshards = 1
    procs = []
    for i in range(nshards):
        out = os.path.join(tmp, f"shard{i}.json")
        logf = open(os.path.join(tmp, f"shard{i}.log"), "w")
        # shards 3 and 11 run optimised (python -O: assert statements are not compiled in) unless the driver says otherwise
        flags = list(getattr(mod, "SHARD_PYFLAGS", {3: ["-O"], 11: ["-O"]}).get(i % 16, []))
        p = subprocess.Popen(
            [PY, "-B", "-X", "faulthandler"] + flags + ["-m", "vf.harness", "--shard", prop, tier, str(seed), str(i), str(nshards), out],
            env=env, cwd=VERIF, stdout=logf, stderr=subprocess.STDOUT,
        )
        procs.append((p, out, logf))
    watchdog = budget * 1.5 + 120
    inconclusive = []
    results = []
    for i, (p, out, logf) in enumerate(procs):
        try:
            p.wait(timeout=max(1.0, watchdog - (time.monotonic() - t0)))
        except subprocess.TimeoutExpired:
            p.kill()
            p.wait()
            inconclusive.append(f"shard {i} exceeded the wall-clock watchdog")
        logf.close()
        if os.path.exists(out):
            with open(out) as fh:
                results.append(json.load(fh))
        else:
            with open(os.path.join(tmp, f"shard{i}.log")) as fh:
                tail = fh.read()[-2500:]
            inconclusive.append(f"shard {i} died (exit {p.returncode}): {tail}")

    # merge
    counters: dict = {}
    violations, samples, errors = [], [], []
    viol_count = cases_run = n_errors = 0
    hashes = set()
    for i, r in enumerate(results):
        for k, v in r["counters"].items():
            counters[k] = counters.get(k, 0) + v
        violations += r["violations"]
        viol_count += r["viol_count"]
        samples += r["samples"]
        errors += r["errors"]
        n_errors += r["n_errors"]
        cases_run += r["cases_run"]
    for i in range(nshards):
        hp = os.path.join(tmp, f"shard{i}.json.hashes")
        if os.path.exists(hp):
            with open(hp, "rb") as fh:
                b = fh.read()
            hashes.update(struct.unpack(f"<{len(b)//8}Q", b))
    if n_errors:
        inconclusive.append(f"{n_errors} harness/library errors outside monitored calls; first: {errors[0]['tb'][-1200:]}")

    known = load_known()
    unlisted, listed = [], {}
    for v in violations:
        e = classify(v, known)
        if e is None:
            unlisted.append(v)
        else:
            listed.setdefault(e["id"], (e, 0))
            listed[e["id"]] = (e, listed[e["id"]][1] + 1)
    # violations beyond the kept sample are conservatively unlisted unless every kept one is listed
    hidden = viol_count - len(violations)

    minimum = getattr(mod, "MINIMUM", {})
    for k, need in minimum.items():
        if counters.get(k, 0) < need and not replay:
            inconclusive.append(f"deciding counter {k}={counters.get(k, 0)} below the minimum {need}")

    wall = time.monotonic() - t0
    evaluations = counters.get("evaluations", cases_run)
    coverage = {
        "evaluations": int(evaluations),
        "distinct_nontrivial": len(hashes),
        "rule": getattr(mod, "RULE", ""),
        "samples": samples[: MAX_SAMPLES * 2],
        "cases_run": cases_run,
        "shards": nshards,
        "counters": dict(sorted(counters.items())),
        "exhaustive": bool(getattr(mod, "EXHAUSTIVE", {}).get(tier, False)),
        "violations_total": viol_count,
        "known_findings_hit": {k: n for k, (e, n) in listed.items()},
        "inconclusive": inconclusive,
    }
    if hasattr(mod, "coverage_extra"):
        coverage.update(mod.coverage_extra(counters, tier))
    evidence = {
        "property_id": prop,
        "tier": tier,
        "seed": seed,
        "level": getattr(mod, "LEVEL", "exploration"),
        "coverage": coverage,
        "assumptions": getattr(mod, "ASSUMPTIONS", []),
        "wall_s": round(wall, 2),
        "violations": len(unlisted) + (hidden if unlisted or not listed else 0),
    }
    if not replay and not os.environ.get("VERIF_NO_EVIDENCE"):
        os.makedirs(os.path.join(VERIF, "evidence"), exist_ok=True)
        with open(os.path.join(VERIF, "evidence", f"{prop}.json"), "w") as fh:
            json.dump(evidence, fh, indent=1)

    rc = 0
    for eid, (e, n) in listed.items():
        print(f"KNOWN-FINDING: property={prop} {e['what']} (observed {n}x in this run)")
    if unlisted or (hidden and not listed):
        rdir = os.path.join(VERIF, "replays", prop)
        os.makedirs(rdir, exist_ok=True)
        seen_kinds = set()
        for v in unlisted:
            key = (v["property"], v["kind"], json.dumps(v.get("features", {}), sort_keys=True))
            if key in seen_kinds:
                continue
            seen_kinds.add(key)
            name = f"{v['kind']}_{h64(json.dumps(v['case'], sort_keys=True)) & 0xFFFFFFFF:08x}.json"
            path = os.path.join(rdir, name)
            if not replay:
                with open(path, "w") as fh:
                    json.dump({"property": prop, "tier": tier, "seed": seed, "case": v["case"], "violation": v}, fh, indent=1)
            else:
                path = replay
            print(f"VIOLATION property={prop} replay={path}")
            print(f"  kind={v['kind']} features={v.get('features')} detail={json.dumps(v['detail'])[:600]}")
        rc = 1
    elif inconclusive:
        for r in inconclusive:
            print(f"INCONCLUSIVE property={prop} reason=" + r[-1500:].replace("\n", " | "))
        rc = 2
    top = {k: v for k, v in counters.items() if not k.startswith("f:")}
    print(
        f"{prop} tier={tier} seed={seed} verdict={'VIOLATED' if rc == 1 else 'INCONCLUSIVE' if rc == 2 else 'held'} "
        f"cases={cases_run} evaluations={evaluations} distinct_nontrivial={len(hashes)} violations={viol_count} wall={wall:.1f}s"
    )
    print("  counters: " + json.dumps(dict(sorted(top.items())))[:3000])
    shutil.rmtree(tmp, ignore_errors=True)
    return rc


def main(argv=None):
    argv = list(sys.argv[1:] if argv is None else argv)
    if argv and argv[0] == "--shard":
        shard_main(argv[1:])
        return 0
    import argparse

    ap = argparse.ArgumentParser()
    ap.add_argument("prop")
    ap.add_argument("--tier", default=os.environ.get("VERIF_TIER", "quick"), choices=["quick", "thorough"])
    ap.add_argument("--replay")
    a = ap.parse_args(argv)
    seed = int(os.environ.get("VERIF_SEED", "0"))
    return run_check(a.prop.upper(), a.tier, seed, a.replay)


if __name__ == "__main__":
    try:
        rc = main()
    except SystemExit as e:  # a monitor / adapter that cannot attach says so: inconclusive, never a bare failure
        if isinstance(e.code, str):
            print(e.code if e.code.startswith("INCONCLUSIVE") else "INCONCLUSIVE reason=" + e.code)
            rc = 2
        else:
            rc = e.code
    sys.exit(rc)
