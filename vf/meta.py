"""Helpers for the metamorphic monitors (C09-C12, C15): run the real evaluate() twice and
compare everything the two results report."""

from __future__ import annotations

import numpy as np

from vf import pan, pipeline

CMP_KEYS = [
    "num_ref_instances", "num_pred_instances", "tp", "fp", "fn", "prec", "rec", "rq",
    "sq", "sq_std", "pq", "sq_dsc", "sq_dsc_std", "pq_dsc", "sq_assd", "sq_assd_std", "sq_rvd", "sq_rvd_std",
]
GLOBAL_KEYS = ["global_bin_dsc", "global_bin_iou", "global_bin_assd", "global_bin_rvd"]


PRIMED = {"calls": 0, "primed": 0}


def maybe_prime(ev, pred, refa):
    """a third of the judged calls (chosen by the content of the input, so that a replay makes the same choice) run on an
    evaluator that has been used before: one earlier call on an input of ANOTHER dimensionality built from the same labels
    (a 2-D slice of a 3-D input, two stacked copies of a 1-D / 2-D input).  Evaluation is pure, so this must not change the
    judged result; what an object remembers from an earlier call becomes visible in the comparison with the unprimed runs."""
    import zlib

    PRIMED["calls"] += 1
    try:
        p, q = np.asarray(pred), np.asarray(refa)
        if p.ndim < 1 or p.shape != q.shape or p.size == 0 or p.size > 2**16:
            return
        h = zlib.crc32(np.ascontiguousarray(p).tobytes()) ^ zlib.crc32(np.ascontiguousarray(q).tobytes()) ^ p.ndim
        if h % 3 != 1:
            return
        if p.ndim >= 3:
            pp, qq = np.ascontiguousarray(p[0]), np.ascontiguousarray(q[0])
        else:
            pp, qq = np.stack([p, p]), np.stack([q, q])
        with np.errstate(all="ignore"):
            pan.evaluate(ev, pp, qq)
        PRIMED["primed"] += 1
    except Exception:  # noqa: BLE001  (an input this configuration rejects: the evaluator stays as it was)
        pass


def run(cfg, pred, refa, evaluator=None, group=None, **kw):
    """returns read_result dict, or {'ERR': repr} if evaluate raised"""
    ev = evaluator or pan.make_evaluator(cfg)
    if evaluator is None and not kw:
        maybe_prime(ev, pred, refa)
    try:
        with np.errstate(all="ignore"):
            out = pan.evaluate(ev, pred, refa, **kw)
    except Exception as e:  # noqa: BLE001
        return {"ERR": type(e).__name__ + ": " + repr(e)[:300]}
    g = group if group is not None else next(iter(out))
    return pan.read_result(out[g][0], cfg.get("metrics", pan.DEFAULT_METRICS))


def run_all_groups(cfg, pred, refa, evaluator=None, **kw):
    ev = evaluator or pan.make_evaluator(cfg)
    if evaluator is None and not kw:
        maybe_prime(ev, pred, refa)
    try:
        with np.errstate(all="ignore"):
            out = pan.evaluate(ev, pred, refa, **kw)
    except Exception as e:  # noqa: BLE001
        return {"ERR": type(e).__name__ + ": " + repr(e)[:300]}
    return {g: pan.read_result(v[0], cfg.get("metrics", pan.DEFAULT_METRICS)) for g, v in out.items()}


def diff(a, b, metrics=pan.DEFAULT_METRICS, keys=None, with_global=True):
    """first key on which two read_result dicts differ, else None"""
    if "ERR" in a or "ERR" in b:
        return "ERR" if a.get("ERR") != b.get("ERR") or ("ERR" in a) != ("ERR" in b) else None
    ks = list(keys or CMP_KEYS) + (GLOBAL_KEYS if with_global and keys is None else [])
    for k in ks:
        tol = dict(rel=1e-9, abs_=1e-9) if "assd" in k else dict(abs_=1e-12)
        if not pan.same(a.get(k), b.get(k), **tol):
            return k
    for m in metrics:
        tol = dict(rel=1e-9, abs_=1e-9) if m == "ASSD" else dict(abs_=1e-12)
        if not pan.same_list(a["lists"].get(m), b["lists"].get(m), **tol):
            return "list:" + m
    return None


def unique_matching(pred, refa, cfg) -> bool:
    """reference model: is the matching uniquely determined (no conflicting tie, no
    guard-band candidate) -- rule 3 of DESIGN.md"""
    if cfg["input"] == "MATCHED_INSTANCE":
        return True
    if (cfg.get("matcher") or {}).get("kind") == "merge":
        return merge_unique(pred, refa, cfg)
    return pipeline.expected(pred, refa, cfg)["unique"]


def merge_unique(pred, refa, cfg) -> bool:
    """the merge matcher's outcome depends on the processing order of equal scores:
    demand that all candidate scores are pairwise distinct (beyond the tolerance) and none
    lies in the guard band of the threshold"""
    from vf import ref

    ndim = np.asarray(refa).ndim
    pi, ri = ref.input_instances(pred, refa, cfg["input"], cfg.get("backend"))
    m = cfg["matcher"]
    table = ref.score_table(m["metric"], ri, pi, ndim)
    vals = sorted(table.values())
    if any(abs(a - b) <= 1e-7 * max(1.0, abs(a)) for a, b in zip(vals, vals[1:])):
        return False
    if m["metric"] == "ASSD" and any(ref.near(v, m["thr"]) for v in vals):
        return False
    return True
