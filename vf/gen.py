"""Workload generators and enumerators (DESIGN.md 2.3).

Every generator is a pure function of (family, index, seed): a shard can build case i
without building the others.  Enumerated families do not depend on the seed."""

from __future__ import annotations

import itertools

import numpy as np


def rng(seed: int, *salt) -> np.random.Generator:
    ss = np.random.SeedSequence([int(seed) & 0xFFFFFFFF] + [abs(hash_int(s)) & 0xFFFFFFFF for s in salt])
    return np.random.Generator(np.random.PCG64(ss))


def hash_int(s) -> int:
    if isinstance(s, int):
        return s
    h = 0
    for ch in str(s):
        h = (h * 131 + ord(ch)) & 0x7FFFFFFF
    return h


# --------------------------------------------------------------------------- exhaustive tiny spaces
def tiny_count(shape, alphabet: int) -> int:
    n = int(np.prod(shape))
    return (alphabet**n) ** 2


def tiny_pair(shape, alphabet: int, i: int, dtype=np.uint8):
    """i-th pair (pred, ref) of label maps over {0..alphabet-1} on `shape`"""
    n = int(np.prod(shape))
    total = alphabet**n
    a, b = divmod(i, total)

    def dec(x):
        out = np.zeros(n, dtype=dtype)
        for k in range(n):
            x, d = divmod(x, alphabet)
            out[k] = d
        return out.reshape(shape)

    return dec(a), dec(b)


def tiny_single(shape, alphabet: int, i: int, dtype=np.uint8):
    n = int(np.prod(shape))
    out = np.zeros(n, dtype=dtype)
    x = i
    for k in range(n):
        x, d = divmod(x, alphabet)
        out[k] = d
    return out.reshape(shape)


# --------------------------------------------------------------------------- random families
SHAPES = {
    1: [(6,), (12,), (25,), (40,)],
    2: [(4, 4), (6, 7), (9, 9), (14, 14), (1, 9), (8, 1)],
    3: [(3, 3, 3), (4, 5, 3), (7, 7, 7), (1, 5, 5), (4, 1, 4)],
}


def _box(shape, r, max_frac=0.6):
    sl = []
    for n in shape:
        ext = int(r.integers(1, max(2, int(n * max_frac) + 1)))
        ext = min(ext, n)
        st = int(r.integers(0, n - ext + 1))
        sl.append(slice(st, st + ext))
    return tuple(sl)


def _blob(shape, r, steps):
    """random-walk blob: list of coordinates"""
    c = [int(r.integers(0, n)) for n in shape]
    out = {tuple(c)}
    for _ in range(steps):
        ax = int(r.integers(0, len(shape)))
        c[ax] = int(np.clip(c[ax] + r.choice((-1, 1)), 0, shape[ax] - 1))
        out.add(tuple(c))
    return list(out)


def inst_map(shape, r, n_inst, style, dtype=np.uint8, overwrite=True):
    arr = np.zeros(shape, dtype=dtype)
    for lab in range(1, n_inst + 1):
        if style == "rects":
            arr[_box(shape, r, 0.5)] = lab
        else:
            for c in _blob(shape, r, int(r.integers(1, 4 * max(shape)))):
                arr[c] = lab
    return arr


def perturb(arr, r, kind):
    """prediction derived from a reference map"""
    a = arr.copy()
    if kind == "shift":
        ax = int(r.integers(0, a.ndim))
        a = np.roll(a, int(r.choice((-1, 1))), axis=ax)
        # do not wrap around
        idx = [slice(None)] * a.ndim
        idx[ax] = 0 if r.random() < 0.5 else -1
        a[tuple(idx)] = 0
    elif kind == "drop":
        m = r.random(a.shape) < 0.25
        a[m] = 0
    elif kind == "noise":
        m = r.random(a.shape) < 0.15
        labs = np.unique(a)
        a[m] = r.choice(labs, size=int(m.sum()))
    elif kind == "split":
        # cut every instance in two along a random axis -> new labels for one half
        ax = int(r.integers(0, a.ndim))
        cut = int(r.integers(1, max(2, a.shape[ax])))
        idx = [slice(None)] * a.ndim
        idx[ax] = slice(cut, None)
        sub = a[tuple(idx)]
        mx = int(a.max())
        if mx * 2 < np.iinfo(a.dtype).max:
            sub[sub != 0] += mx
    elif kind == "merge":
        labs = [int(x) for x in np.unique(a) if x != 0]
        if len(labs) >= 2:
            x, y = r.choice(labs, size=2, replace=False)
            a[a == x] = y
    return a


FAMILIES = ["rects", "blobs", "shift", "drop", "noise", "split", "merge", "diag", "border", "empty", "bern", "touch"]


def random_pair(seed: int, i: int, ndim: int | None = None, dtype=np.uint8, max_inst=6, family=None):
    """(pred, ref, family) instance-style label maps (labels are instance ids)"""
    r = rng(seed, "pair", i)
    if ndim is None:
        ndim = int(r.choice((1, 2, 2, 3)))
    shape = SHAPES[ndim][int(r.integers(0, len(SHAPES[ndim])))]
    fam = family or FAMILIES[int(r.integers(0, len(FAMILIES)))]
    n_ref = int(r.integers(1, max_inst + 1))
    if fam in ("rects", "blobs"):
        ref = inst_map(shape, r, n_ref, fam, dtype)
        pred = inst_map(shape, r, int(r.integers(1, max_inst + 1)), fam, dtype)
    elif fam in ("shift", "drop", "noise", "split", "merge"):
        ref = inst_map(shape, r, n_ref, "rects" if r.random() < 0.5 else "blobs", dtype)
        pred = perturb(ref, r, fam)
    elif fam == "diag":
        ref = np.zeros(shape, dtype=dtype)
        pred = np.zeros(shape, dtype=dtype)
        for arr in (ref, pred):
            lab = 1
            c = [int(r.integers(0, n)) for n in shape]
            for _ in range(int(r.integers(2, 3 * max(shape)))):
                arr[tuple(c)] = lab
                step = [int(r.choice((-1, 0, 1))) for _ in shape]
                c = [int(np.clip(x + s, 0, n - 1)) for x, s, n in zip(c, step, shape)]
                if r.random() < 0.15:
                    lab = lab % 3 + 1
    elif fam == "border":
        ref = np.zeros(shape, dtype=dtype)
        pred = np.zeros(shape, dtype=dtype)
        for arr in (ref, pred):
            for lab in range(1, int(r.integers(1, 4)) + 1):
                sl = list(_box(shape, r, 0.5))
                ax = int(r.integers(0, len(shape)))
                ext = sl[ax].stop - sl[ax].start
                sl[ax] = slice(0, ext) if r.random() < 0.5 else slice(shape[ax] - ext, shape[ax])
                arr[tuple(sl)] = lab
    elif fam == "empty":
        ref = inst_map(shape, r, n_ref, "rects", dtype)
        pred = inst_map(shape, r, n_ref, "rects", dtype)
        k = int(r.integers(0, 4))
        if k == 0:
            pred[:] = 0
        elif k == 1:
            ref[:] = 0
        elif k == 2:
            pred[:] = 0
            ref[:] = 0
        else:  # disjoint
            pred[ref != 0] = 0
    elif fam == "bern":
        dens = float(r.random()) * 0.8 + 0.05
        k = int(r.integers(1, 4))
        ref = (r.random(shape) < dens).astype(dtype) * r.integers(1, k + 1, size=shape).astype(dtype)
        pred = (r.random(shape) < dens).astype(dtype) * r.integers(1, k + 1, size=shape).astype(dtype)
    else:  # touch: face-adjacent different labels
        ref = np.zeros(shape, dtype=dtype)
        pred = np.zeros(shape, dtype=dtype)
        for arr in (ref, pred):
            ax = int(r.integers(0, len(shape)))
            cuts = sorted(set(int(x) for x in r.integers(0, shape[ax] + 1, size=3)))
            lab = 1
            prev = 0
            for cpos in cuts + [shape[ax]]:
                idx = [slice(None)] * len(shape)
                idx[ax] = slice(prev, cpos)
                if r.random() < 0.8:
                    arr[tuple(idx)] = lab
                lab += 1
                prev = cpos
            m = r.random(shape) < 0.15
            arr[m] = 0
    return pred.astype(dtype), ref.astype(dtype), fam


def to_semantic(arr, r, n_classes=2):
    """turn an instance map into a semantic map: instances get one of n_classes labels"""
    out = np.zeros_like(arr)
    for lab in np.unique(arr):
        if lab == 0:
            continue
        out[arr == lab] = int(r.integers(1, n_classes + 1))
    return out


def make_matched(pred, ref, r):
    """relabel so that some prediction labels coincide with reference labels (matched input):
    a random partial injection pred label -> ref label; other predictions get fresh labels"""
    pl = [int(x) for x in np.unique(pred) if x != 0]
    rl = [int(x) for x in np.unique(ref) if x != 0]
    out = np.zeros_like(pred)
    fresh = (max(rl) if rl else 0) + 1
    avail = list(rl)
    r.shuffle(avail)
    for p in pl:
        if avail and r.random() < 0.7:
            # prefer the reference with the largest overlap half of the time
            if r.random() < 0.6:
                ov = [(int(((pred == p) & (ref == q)).sum()), q) for q in avail]
                q = max(ov)[1]
            else:
                q = avail[0]
            avail.remove(q)
            out[pred == p] = q
        else:
            out[pred == p] = fresh
            fresh += 1
    return out


# --------------------------------------------------------------------------- thresholds
def threshold_classes(scores, decreasing: bool, exact: bool = True, lo=0.0, hi=None):
    """one threshold per equivalence class of {score : meets threshold}: below the minimum,
    midpoints between consecutive distinct scores, above the maximum; plus (if exact) every
    score itself (score == threshold must match)."""
    s = sorted(set(float(x) for x in scores if x is not None and np.isfinite(x)))
    out = []
    if not s:
        return [0.5]
    if hi is None:
        hi = 1.0 if not decreasing else s[-1] + 1.0
    cand = [max(lo, s[0] - 0.25) if s[0] > lo else lo]
    for a, b in zip(s, s[1:]):
        cand.append((a + b) / 2)
    cand.append(min(hi, s[-1] + 0.25) if s[-1] < hi else hi)
    if decreasing:
        cand.append(lo)  # e.g. ASSD <= 0.0: only perfect instances pass (0.0 is falsy in python)
    if exact:
        cand.extend(s)
    # probes right beside a score (same class as a midpoint, but where tolerance-based comparisons go wrong)
    # on the side where the score must fail: just above it for higher-is-better, just below for lower-is-better
    for x in s[:3]:
        ys = (float(np.nextafter(x, -np.inf)), x * (1 - 3e-6)) if decreasing else (float(np.nextafter(x, np.inf)), x * (1 + 3e-6))
        for y in ys:
            if y > lo:
                cand.append(y)
    for c in cand:
        c = float(min(max(c, lo), hi))
        if c not in out:
            out.append(c)
    return sorted(out)


def arr_key(*arrs) -> bytes:
    return b"".join(str(a.dtype).encode() + str(a.shape).encode() + np.ascontiguousarray(a).tobytes() for a in arrs)


def paircode_boundary_pair(seed, i):
    """label values for which products / pair codes pred*(max_ref+1)+ref land right at 2^8, 2^16 or 2^32
    (an implementation that encodes a (prediction, reference) label pair in too small a type breaks exactly here)"""
    r = rng(seed, "paircode", i)
    B = [2**8, 2**16, 2**32][i % 3]
    refs = [1, 2, 3, 7, 15, 16, 20, 50, 84, 255, 256, 1000, 4095, 65535, 65536]
    rl = int(refs[(i // 3) % len(refs)])
    base = [(B - 1) // (rl + 1), (B - 1) // rl, B // (rl + 1), (B - 1) // max(1, rl - 1)][(i // 45) % 4]
    pl = max(1, base + int(r.integers(-1, 2)))
    need = max(pl, rl)
    dts = [d for d in (np.uint8, np.uint16, np.uint32, np.uint64) if np.iinfo(d).max >= need and need < 2**24 + 2**20]
    if not dts:
        pl = min(pl, 2**24 - 1)
        dts = [np.uint32, np.uint64]
    dtype = dts[int(r.integers(0, len(dts)))]
    n = 24
    pred = np.zeros(n, dtype=dtype)
    refa = np.zeros(n, dtype=dtype)
    # the boundary pair: IoU 5/6 ; a second, small-labelled pair ; one unmatched prediction
    refa[2:8] = rl
    pred[3:8] = pl
    small_r = 1 if rl != 1 else 2
    small_p = 1 if pl != 1 else 2
    refa[12:16] = small_r
    pred[12:17] = small_p
    third = 3 if pl != 3 and small_p != 3 else 4
    pred[20:22] = third
    if i % 2:
        pred, refa = np.stack([pred, np.zeros_like(pred)]), np.stack([refa, np.zeros_like(refa)])
    return pred, refa


def near_tie_pair(seed, i):
    """large 1-D instances: one prediction P is contested by two references A and B with IoU m/(3m+1) and
    (m+1)/(3m+4) -- they differ by 1/((3m+1)(3m+4)), i.e. 1e-6 .. 1e-9 for m = 300 .. 10000.  Unequal scores, so
    the matching is uniquely determined, but any rounding of scores (float32, round(x, 6..8), isclose) ties them."""
    r = rng(seed, "neartie", i)
    m = int([300, 1000, 3000, 10000][i % 4])
    refa = np.zeros(4 * m + 12, dtype=np.uint32)
    pred = np.zeros_like(refa)
    refa[0 : 2 * m] = 1                 # A, 2m voxels
    pred[m : 3 * m + 1] = 1             # P, 2m+1 voxels: m in A, m+1 in B
    refa[2 * m : 4 * m + 4] = 2         # B, 2m+4 voxels
    if i % 2:                           # a second, clearly matched pair
        refa[-5:-2] = 3
        pred[-5:-3] = 2
    la, lb = [(1, 2), (2, 1), (7, 3), (70000, 66000)][(i // 8) % 4]  # which of the two has the smaller label value
    out = refa.copy()
    out[refa == 1], out[refa == 2] = la, lb
    if (i // 4) % 2:                    # mirror: the better candidate comes later in scan order
        return pred[::-1].copy(), out[::-1].copy()
    return pred, out


def big_volume_pair(seed, i, tier="quick"):
    """sparse label maps with more voxels than the sizes at which array code typically switches strategy (2^18,
    2^20, 2^22; 2^24 in the thorough tier), with a size that is not a multiple of any block / worker count, and with
    instances where block-wise code goes wrong: at the very first and the very last voxels (far corner), across the
    middle, one instance whose two parts lie at opposite ends (its bounding box is the whole volume), one reference
    over-segmented into two predictions, one unmatched prediction in the far corner.  Few foreground voxels, so the
    set-based reference stays cheap.  Returns (pred, ref) as unmatched instance maps, dtype uint8/uint16/uint32."""
    r = rng(seed, "bigvol", i)
    exps = [18, 20, 18, 22, 20, 18] if tier == "quick" else [18, 20, 22, 20, 22, 24]
    t = 2 ** exps[i % len(exps)]
    ndim = 1 + (i // 2) % 3
    if ndim == 1:
        shape = (t + 3 + 2 * int(r.integers(0, 50)),)
    elif ndim == 2:
        a = int(round(t ** 0.5)) + 1
        shape = (a | 1, (a + 2) | 1)
    else:
        a = int(round(t ** (1 / 3))) + 1
        shape = (a | 1, (a + 2) | 1, (a + 4) | 1)
    dtype = [np.uint8, np.uint16, np.uint32][(i // 3) % 3]
    refa = np.zeros(shape, dtype=dtype)
    pred = np.zeros(shape, dtype=dtype)
    fr, fp = refa.reshape(-1), pred.reshape(-1)
    n = fr.size
    w = int(r.integers(4, 12))
    # head: first voxels
    fr[0:w] = 1
    fp[1 : w + 1] = 1
    # middle, straddling n // 2 (and, flat, a row / slab boundary now and then)
    m = n // 2 - int(r.integers(0, 3))
    fr[m : m + w + 3] = 2
    fp[m + 2 : m + w + 3] = 2
    # tail: last voxels, the prediction reaches the far corner
    fr[n - w - 2 : n - 1] = 3
    fp[n - w : n] = 3
    # one instance in two parts at opposite ends (bounding box = whole volume)
    q = n // 7
    fr[q : q + 5] = 4
    fr[n - q : n - q + 5] = 4
    fp[q : q + 5] = 4
    fp[n - q : n - q + 4] = 4
    # a reference over-segmented by two predictions
    u = n // 3
    fr[u : u + 12] = 5
    fp[u : u + 7] = 5
    fp[u + 7 : u + 12 + (8 if i % 2 else 0)] = 6  # the second fragment may reach beyond the reference
    # an unmatched prediction next to the tail instance, and an unmatched reference
    fp[n - w - 9 : n - w - 5] = 7
    fr[n // 5 : n // 5 + 3] = 6
    if i % 4 == 1:
        # prediction labels permuted and shifted (fresh labels needed for the unmatched ones)
        lut = np.arange(8, dtype=dtype)
        lut[1:] = np.array([3, 1, 2, 5, 4, 7, 6], dtype=dtype)
        pred = lut[pred]
    return pred, refa
