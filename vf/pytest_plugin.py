"""pytest plugin: runs the repository's own unit tests with every monitor attached
(DESIGN.md 7.3).  usage:  pytest -p vf.pytest_plugin  (VERIF_PLUGIN_OUT=<json file>)

A monitor that fires here is either too strict or has found something the tests do not
assert; the witness is written to the output file."""

import json
import os


def pytest_configure(config):
    from vf import harness, monitors

    ctx = harness.Ctx("REPO_TESTS", "thorough", 0)
    monitors.install(ctx, {"C02", "C03", "C04", "C05", "C06", "C07", "C14"})
    config._verif_ctx = ctx


def pytest_runtest_setup(item):
    ctx = item.config._verif_ctx
    ctx.case = {"test": item.nodeid}


def pytest_sessionfinish(session, exitstatus):
    ctx = session.config._verif_ctx
    out = os.environ.get("VERIF_PLUGIN_OUT")
    res = {"counters": ctx.counters, "viol_count": ctx.viol_count, "violations": ctx.violations}
    if out:
        with open(out, "w") as fh:
            json.dump(res, fh)
    tr = session.config.pluginmanager.get_plugin("terminalreporter")
    if tr:
        tr.write_line(f"verif monitors: {ctx.viol_count} violations; counters {dict((k, v) for k, v in ctx.counters.items() if k.endswith('checked'))}")
