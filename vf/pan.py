"""Adapter to the real panoptica code of the tree under check.

* puts $VERIF_REPO (default /repo) first on sys.path and asserts panoptica comes from it
* replaces the two multiprocessing pools by an order-preserving in-process starmap (the
  substitution is itself validated by C15 against the real pool on every run)
* builds evaluators from JSON-able configuration dicts and reads results back
"""

from __future__ import annotations

import io
import math
import os
import sys
import contextlib

REPO = os.path.realpath(os.environ.get("VERIF_REPO", "/repo"))
if sys.path[0] != REPO:
    sys.path.insert(0, REPO)
os.environ.setdefault("PANOPTICA_CITATION_REMINDER", "false")

import numpy as np  # noqa: E402

# ------------------------------------------------------------------ locks created by the aggregator module
# Whatever locks panoptica.panoptica_aggregator creates (module level or later, multiprocessing or threading,
# under whatever name) are handed out as proxies that forward to a hook (vf.sched) when one is installed --
# so that lock tracing does not depend on the names of module globals.
import multiprocessing as _mp  # noqa: E402
import threading as _threading  # noqa: E402

LOCK_PROXIES = []
LOCK_HOOK = None  # object with acquire(proxy, *a, **k) and release(proxy); set by vf.sched.install()
_LOCK_MODULES = ("panoptica.panoptica_aggregator",)


class LockProxy:
    def __init__(self, real, factory, reentrant, created_in):
        self.real = real
        self.factory = factory
        self.reentrant = reentrant
        self.created_in = created_in
        self.name = "lock%d%s" % (len(LOCK_PROXIES), "R" if reentrant else "")
        LOCK_PROXIES.append(self)

    def acquire(self, *a, **k):
        if LOCK_HOOK is not None:
            return LOCK_HOOK.acquire(self, *a, **k)
        return self.real.acquire(*a, **k)

    def release(self):
        if LOCK_HOOK is not None:
            return LOCK_HOOK.release(self)
        return self.real.release()

    def __enter__(self):
        self.acquire()
        return self

    def __exit__(self, *a):
        self.release()
        return False

    def fresh(self):
        """a new, unlocked lock of the same kind (what a new process would have)"""
        self.real = self.factory()

    def __getattr__(self, k):
        return getattr(self.real, k)


class OwnedLock:
    """a threading lock created by any other module of the package: forwards everything, and remembers which
    thread of which process holds it.  A process forked while another thread holds such a lock inherits it
    locked without the thread that would release it; an acquire in that process can never succeed.  This is the
    fork-safety monitor of C16 ("no call blocks forever"): the acquire that cannot succeed is written to
    FORKSAFETY["dir"] as a witness before it blocks as the real code would."""

    def __init__(self, real, reentrant, created_in, lineno):
        self.real = real
        self.reentrant = reentrant
        self.created_in = created_in
        self.lineno = lineno
        self.owner = None  # (pid, thread ident, depth)
        OWNED_LOCKS.append(self)

    def acquire(self, blocking=True, timeout=-1):
        own = self.owner
        me = (os.getpid(), _threading.get_ident())
        if own is not None and own[0] != me[0] and blocking and (not self.reentrant or True):
            # held since before the fork by a thread that does not exist in this process
            if not self.real.acquire(False):
                _forksafety_witness(self, own)
            else:
                self.real.release()
        ok = self.real.acquire(blocking, timeout)
        if ok:
            FORKSAFETY["acquisitions"] += 1
            depth = own[2] + 1 if (own is not None and own[:2] == me) else 1
            self.owner = (me[0], me[1], depth)
            hold = FORKSAFETY["hold"]
            if hold is not None and depth == 1:
                hold(self)
        return ok

    def release(self):
        own = self.owner
        if own is not None and own[2] > 1:
            self.owner = (own[0], own[1], own[2] - 1)
        else:
            self.owner = None
        return self.real.release()

    def _at_fork_reinit(self):
        self.owner = None
        return self.real._at_fork_reinit()

    def __enter__(self):
        self.acquire()
        return self

    def __exit__(self, *a):
        self.release()
        return False

    def __getattr__(self, k):
        return getattr(self.real, k)


OWNED_LOCKS = []
FORKSAFETY = {"dir": None, "hold": None, "acquisitions": 0, "forks": 0, "forks_with_lock_held_elsewhere": 0, "on_fork": None}


def _forksafety_witness(lock, own):
    d = FORKSAFETY["dir"]
    if d:
        import json as _json

        with open(os.path.join(d, "orphan_%d.json" % os.getpid()), "w") as fh:
            _json.dump({"lock_created_in": lock.created_in, "line": lock.lineno, "reentrant": lock.reentrant, "held_by_pid": own[0], "held_by_thread": own[1],
                        "blocked_pid": os.getpid(), "parent_pid": os.getppid()}, fh)


def _before_fork():
    FORKSAFETY["forks"] += 1
    me = _threading.get_ident()
    if any(l.owner is not None and l.owner[0] == os.getpid() and l.owner[1] != me for l in OWNED_LOCKS):
        FORKSAFETY["forks_with_lock_held_elsewhere"] += 1
    f = FORKSAFETY["on_fork"]
    if f is not None:
        f()


os.register_at_fork(before=_before_fork)


def _proxy_factory(orig, reentrant, threading_lock=False):
    def factory(*a, **k):
        real = orig(*a, **k)
        fr = sys._getframe(1)
        mod = fr.f_globals.get("__name__", "")
        if mod in _LOCK_MODULES:
            return LockProxy(real, lambda: orig(*a, **k), reentrant, mod)
        if threading_lock and (mod == "panoptica" or mod.startswith("panoptica.")):
            return OwnedLock(real, reentrant, mod, fr.f_lineno)
        return real

    return factory


_ORIG_LOCKS = {"mp.Lock": _mp.Lock, "mp.RLock": _mp.RLock, "th.Lock": _threading.Lock, "th.RLock": _threading.RLock}
_mp.Lock, _mp.RLock = _proxy_factory(_mp.Lock, False), _proxy_factory(_mp.RLock, True)
_threading.Lock, _threading.RLock = _proxy_factory(_threading.Lock, False, True), _proxy_factory(_threading.RLock, True, True)

with contextlib.redirect_stdout(io.StringIO()):
    import panoptica  # noqa: E402
    import panoptica._functionals as _functionals  # noqa: E402
    import panoptica.instance_evaluator as _instance_evaluator  # noqa: E402
    import panoptica.instance_matcher as _instance_matcher  # noqa: E402
    import panoptica.instance_approximator as _instance_approximator  # noqa: E402
    import panoptica.panoptica_evaluator as _panoptica_evaluator  # noqa: E402
    import panoptica.panoptica_result as _panoptica_result  # noqa: E402
    import panoptica.metrics.metrics as _metrics_mod  # noqa: E402
    from panoptica import (  # noqa: E402
        InputType,
        Panoptica_Evaluator,
        ConnectedComponentsInstanceApproximator,
        CCABackend,
        NaiveThresholdMatching,
    )
    from panoptica.instance_matcher import MaximizeMergeMatching  # noqa: E402
    from panoptica.metrics import Metric, MetricMode  # noqa: E402
    from panoptica.utils.edge_case_handling import (  # noqa: E402
        EdgeCaseHandler,
        EdgeCaseResult,
        MetricZeroTPEdgeCaseHandling,
    )
    from panoptica.utils.segmentation_class import SegmentationClassGroups  # noqa: E402
    from panoptica.utils.label_group import LabelGroup, LabelMergeGroup  # noqa: E402

_pf = os.path.realpath(panoptica.__file__)
if not _pf.startswith(REPO + os.sep):
    raise SystemExit(f"INCONCLUSIVE reason=panoptica imported from {_pf}, not from {REPO}")


class _Done:
    def __init__(self, value):
        self._v = value

    def get(self, timeout=None):
        return self._v

    def wait(self, timeout=None):
        return None

    def ready(self):
        return True

    def successful(self):
        return True


class SerialPool:
    """in-process stand-in for multiprocessing.Pool.  Ordered operations (map, imap, starmap, ...) preserve
    order; imap_unordered yields results in a permuted order, which is a legal behaviour of the real pool
    (completion order) and makes a dependence on it observable."""

    calls = 0
    unordered_calls = 0

    def __init__(self, processes=None, initializer=None, initargs=(), maxtasksperchild=None, context=None):
        # the argument checks of multiprocessing.pool.Pool.__init__
        if processes is None:
            processes = os.cpu_count() or 1
        if processes < 1:
            raise ValueError("Number of processes must be at least 1")
        if maxtasksperchild is not None and (not isinstance(maxtasksperchild, int) or maxtasksperchild <= 0):
            raise ValueError("maxtasksperchild must be a positive int or None")
        if initializer is not None and not callable(initializer):
            raise TypeError("initializer must be a callable")
        if initializer is not None:
            initializer(*initargs)

    def __enter__(self):
        return self

    def __exit__(self, *a):
        return False

    def starmap(self, fn, iterable, chunksize=None):
        SerialPool.calls += 1
        return [fn(*args) for args in iterable]

    def map(self, fn, iterable, chunksize=None):
        SerialPool.calls += 1
        return [fn(a) for a in iterable]

    def imap(self, fn, iterable, chunksize=1):
        SerialPool.calls += 1
        return iter([fn(a) for a in iterable])

    def imap_unordered(self, fn, iterable, chunksize=1):
        SerialPool.calls += 1
        SerialPool.unordered_calls += 1
        res = [fn(a) for a in iterable]
        k = SerialPool.unordered_calls
        if len(res) > 1:  # deterministic permutation: rotate, and reverse every other call
            r = k % len(res)
            res = res[r:] + res[:r]
            if k % 2:
                res.reverse()
        return iter(res)

    def apply(self, fn, args=(), kwds=None):
        SerialPool.calls += 1
        return fn(*args, **(kwds or {}))

    def apply_async(self, fn, args=(), kwds=None, callback=None, error_callback=None):
        v = self.apply(fn, args, kwds)
        if callback:
            callback(v)
        return _Done(v)

    def map_async(self, fn, iterable, chunksize=None, callback=None, error_callback=None):
        return _Done(self.map(fn, iterable))

    def starmap_async(self, fn, iterable, chunksize=None, callback=None, error_callback=None):
        return _Done(self.starmap(fn, iterable))

    def close(self):
        pass

    def join(self):
        pass

    def terminate(self):
        pass


_REAL_POOLS = {}


POOL_SITES = []  # modules of the tree under check that bind a name `Pool`


def use_serial_pool(on: bool = True):
    """replace multiprocessing pools by the in-process stand-in wherever the library binds the name `Pool`
    (an implementation that does not use a pool there simply has nothing to substitute)"""
    import types

    mods = [m for n, m in list(sys.modules.items()) if n.startswith("panoptica") and isinstance(m, types.ModuleType)]
    for mod in mods:
        if mod in _REAL_POOLS or (hasattr(mod, "Pool") and getattr(mod.Pool, "__module__", "").startswith("multiprocessing") and not isinstance(mod.Pool, type)):
            if mod not in _REAL_POOLS:
                _REAL_POOLS[mod] = mod.Pool
                POOL_SITES.append(mod.__name__)
            mod.Pool = SerialPool if on else _REAL_POOLS[mod]


if not os.environ.get("VERIF_REAL_POOL"):  # helper processes that must see the real pool from their first call set it
    use_serial_pool(True)


@contextlib.contextmanager
def real_pool():
    use_serial_pool(False)
    try:
        yield
    finally:
        use_serial_pool(True)


@contextlib.contextmanager
def quiet():
    """the library prints progress lines; keep shard output clean"""
    with contextlib.redirect_stdout(io.StringIO()):
        yield


METRIC = {"DSC": Metric.DSC, "IOU": Metric.IOU, "ASSD": Metric.ASSD, "RVD": Metric.RVD, "clDSC": Metric.clDSC}
INPUT = {
    "SEMANTIC": InputType.SEMANTIC,
    "UNMATCHED_INSTANCE": InputType.UNMATCHED_INSTANCE,
    "MATCHED_INSTANCE": InputType.MATCHED_INSTANCE,
}
BACKEND = {None: None, "cc3d": CCABackend.cc3d, "scipy": CCABackend.scipy}
EDGE = {
    "INF": EdgeCaseResult.INF,
    "NAN": EdgeCaseResult.NAN,
    "ZERO": EdgeCaseResult.ZERO,
    "ONE": EdgeCaseResult.ONE,
    "NONE": EdgeCaseResult.NONE,
}


def make_matcher(m):
    if m is None:
        return None
    if m["kind"] == "naive":
        o = NaiveThresholdMatching(
            matching_metric=METRIC[m["metric"]],
            matching_threshold=m["thr"],
            allow_many_to_one=bool(m.get("m2o", False)),
        )
    elif m["kind"] == "merge":
        o = MaximizeMergeMatching(matching_metric=METRIC[m["metric"]], matching_threshold=m["thr"])
    else:
        raise KeyError(m)
    try:
        # what the caller asked for: the monitors judge against this, not against what the object stored
        o._vf_cfg = {"metric": m["metric"], "thr": float(m["thr"]), "m2o": bool(m.get("m2o", False))}
    except Exception:  # noqa: BLE001
        pass
    return o


def make_handler(h, std="NAN"):
    """h: None (library default) or dict metric -> 4 result names
    (no_instances, empty_pred, empty_ref, normal)"""
    if h is None and std == "NAN":
        return None
    if h is None:
        return EdgeCaseHandler(empty_list_std=EDGE[std])
    d = {
        METRIC[m]: MetricZeroTPEdgeCaseHandling(
            no_instances_result=EDGE[v[0]],
            empty_prediction_result=EDGE[v[1]],
            empty_reference_result=EDGE[v[2]],
            normal=EDGE[v[3]],
        )
        for m, v in h.items()
    }
    return EdgeCaseHandler(listmetric_zeroTP_handling=d, empty_list_std=EDGE[std])


def make_groups(g):
    """g: None or dict name -> {"labels": [...], "kind": "plain"|"merge", "single": bool}"""
    if g is None:
        return None
    d = {}
    for name, spec in g.items():
        cls = LabelMergeGroup if spec.get("kind") == "merge" else LabelGroup
        d[name] = cls(list(spec["labels"]), bool(spec.get("single", False)))
    return SegmentationClassGroups(d)


DEFAULT_METRICS = ["DSC", "IOU", "ASSD", "RVD"]
_APPROX = {}


def shared_approximator(backend):
    """one approximator object per backend setting for the whole process: a configuration component that
    users legitimately share between evaluators and that sees 1-D, 2-D and 3-D inputs in turn"""
    if backend not in _APPROX:
        _APPROX[backend] = ConnectedComponentsInstanceApproximator(cca_backend=BACKEND[backend])
    return _APPROX[backend]


def make_evaluator(cfg: dict) -> Panoptica_Evaluator:
    kw = dict(
        expected_input=INPUT[cfg["input"]],
        instance_approximator=(
            shared_approximator(cfg.get("backend"))
            if cfg["input"] == "SEMANTIC" or cfg.get("force_approx")
            else None
        ),
        instance_matcher=make_matcher(cfg.get("matcher")),
        edge_case_handler=make_handler(cfg.get("handler"), cfg.get("std", "NAN")),
        segmentation_class_groups=make_groups(cfg.get("groups")),
        instance_metrics=[METRIC[m] for m in cfg.get("metrics", DEFAULT_METRICS)],
        global_metrics=[METRIC[m] for m in cfg.get("global", ["DSC"])],
    )
    if cfg.get("use_default_lists"):  # leave the constructor's own (shared, mutable) default lists in place
        del kw["instance_metrics"], kw["global_metrics"]
    kw.update(
        decision_metric=METRIC[cfg["dm"]] if cfg.get("dm") else None,
        decision_threshold=cfg.get("dt") if cfg.get("dm") else None,
    )
    for k in ("save_group_times", "log_times", "verbose"):
        if k in cfg:
            kw[k] = cfg[k]
    return Panoptica_Evaluator(**kw)


def evaluate(ev, pred, ref, **kw):
    kw.setdefault("verbose", False)
    with quiet():
        return ev.evaluate(pred, ref, **kw)


SCALARS = [
    "num_ref_instances", "num_pred_instances", "tp", "fp", "fn", "prec", "rec", "rq",
    "sq", "sq_std", "pq", "sq_dsc", "sq_dsc_std", "pq_dsc", "sq_cldsc", "sq_cldsc_std",
    "pq_cldsc", "sq_assd", "sq_assd_std", "sq_rvd", "sq_rvd_std",
    "global_bin_dsc", "global_bin_iou", "global_bin_cldsc", "global_bin_assd", "global_bin_rvd",
]


def pyval(v):
    """numpy scalar -> python scalar"""
    if v is None:
        return None
    if isinstance(v, (np.generic,)):
        return v.item()
    return v


def read_result(res, metrics=("DSC", "IOU", "ASSD", "RVD")) -> dict:
    """Everything a result reports, by attribute access (so laziness is not a difference).
    An attribute that raises is reported as the string 'ERR:<exception type>'."""
    out = {}
    for k in SCALARS:
        try:
            out[k] = pyval(getattr(res, k))
        except Exception as e:  # noqa: BLE001
            out[k] = "ERR:" + type(e).__name__
    lists = {}
    for m in metrics:
        try:
            lists[m] = [pyval(x) for x in res.get_list_metric(METRIC[m], MetricMode.ALL)]
        except Exception as e:  # noqa: BLE001
            lists[m] = "ERR:" + type(e).__name__
    out["lists"] = lists
    return out


def same(a, b, rel=0.0, abs_=1e-12) -> bool:
    """float/None/str comparison: NaN == NaN, None == None, inf == inf"""
    if a is None or b is None or isinstance(a, str) or isinstance(b, str):
        return a == b
    a = float(a)
    b = float(b)
    if math.isnan(a) or math.isnan(b):
        return math.isnan(a) and math.isnan(b)
    if math.isinf(a) or math.isinf(b):
        return a == b
    return abs(a - b) <= max(abs_, rel * max(abs(a), abs(b)))


def same_list(a, b, rel=0.0, abs_=1e-12) -> bool:
    """multiset equality of two float lists"""
    if isinstance(a, str) or isinstance(b, str):
        return a == b
    if len(a) != len(b):
        return False
    return all(same(x, y, rel, abs_) for x, y in zip(sorted(a), sorted(b)))
