"""runs the repository's unit tests under the monitors and hands the violations that
belong to one property to the calling driver (a thorough-tier family)"""

import json
import os
import subprocess
import tempfile

from vf import harness, pan


def run(ctx, prop):
    out = tempfile.mktemp(prefix="repotests_", suffix=".json", dir=os.environ.get("VERIF_TMP"))
    env = dict(os.environ, PYTHONPATH=harness.VERIF + os.pathsep + pan.REPO, VERIF_PLUGIN_OUT=out, PANOPTICA_CITATION_REMINDER="false")
    p = subprocess.run(
        [harness.PY, "-B", "-m", "pytest", "-q", "-p", "no:cacheprovider", "-p", "vf.pytest_plugin", "--timeout=900", "unit_tests",
         "--deselect", "unit_tests/test_panoptic_aggregator.py::Test_Example_Scripts", "--deselect", "unit_tests/test_panoptic_evaluator.py::Test_Example_Scripts"],
        cwd=pan.REPO, env=env, capture_output=True, text=True, timeout=1200,
    )
    if not os.path.exists(out):
        ctx.errors.append({"case": "repo_tests", "tb": "pytest under monitors produced no output: " + p.stdout[-800:] + p.stderr[-800:]})
        return
    res = json.load(open(out))
    ctx.count("repo_tests.monitor_checks", sum(v for k, v in res["counters"].items() if k.startswith(prop + ".checked")))
    ctx.count("evaluations")
    for v in res["violations"]:
        if v["property"] == prop:
            ctx.viol(v["kind"] + "_in_repository_unit_test", {"test": v["case"], "detail": v["detail"]}, features=dict(v["features"], repo_test=True))
