"""Hand-computed cases for the reference model (run by setup.sh)."""

from fractions import Fraction as F
import math

import numpy as np

from vf import ref


def main():
    # components: diagonal contact
    a = np.array([[1, 0], [0, 1]])
    assert len(ref.components(ref.vox(a), "face", 2)) == 2
    assert len(ref.components(ref.vox(a), "full", 2)) == 1
    # label awareness of the full mode, label blindness of the face mode
    b = np.array([1, 1, 2, 2, 0, 1])
    assert len(ref.components(ref.vox(b), "face", 1)) == 2
    assert len(ref.components(ref.vox(b), "full", 1)) == 3
    c = np.zeros((2, 2, 2), int)
    c[0, 0, 0] = c[1, 1, 1] = 1
    assert len(ref.components(ref.vox(c), "full", 3)) == 1
    assert len(ref.components(ref.vox(c), "face", 3)) == 2
    assert ref.backend_mode(None, 3) == "full" and ref.backend_mode(None, 2) == "face" and ref.backend_mode(None, 1) == "face"
    # overlap metrics
    X = frozenset([(0,), (1,), (2,)])
    Y = frozenset([(2,), (3,)])
    assert ref.iou(X, Y) == F(1, 4) and ref.dice(X, Y) == F(2, 5)
    assert ref.rvd(Y, X) == F(-1, 3)  # pred Y (2 voxels) vs ref X (3 voxels)
    assert ref.iou(frozenset(), frozenset()) is None
    # dice = 2 iou / (1 + iou)
    i = ref.iou(X, Y)
    assert ref.dice(X, Y) == 2 * i / (1 + i)
    # borders: a 3x3 square has 8 border voxels, the centre is interior; array edge counts as background
    sq = frozenset((i, j) for i in range(3) for j in range(3))
    assert len(ref.border(sq, 2)) == 8
    line = frozenset((i,) for i in range(5))
    assert sorted(ref.border(line, 1)) == [(0,), (4,)]
    # ASSD: single voxels at distance 3 -> 3 ; identical -> 0
    p, q = frozenset([(0, 0)]), frozenset([(0, 3)])
    assert ref.assd(p, q, 2) == 3.0 and ref.assd(p, p, 2) == 0.0
    # ASSD of [0..4] vs [2..6] in 1-D: borders {0,4} and {2,6}; d(A->B) = (2+2)/2 = 2, d(B->A) = (2+2)/2 = 2 -> 2
    A = frozenset((i,) for i in range(0, 5))
    B = frozenset((i,) for i in range(2, 7))
    assert ref.assd(A, B, 1) == 2.0
    # asymmetric directed distances: A = {0}, B = {0, 4} (two single voxels, both border)
    A = frozenset([(0,)])
    B = frozenset([(0,), (4,)])
    # d(A->B) = 0 ; d(B->A) = (0 + 4)/2 = 2 ; assd = 1
    assert ref.assd(A, B, 1) == 1.0 and ref.assd(B, A, 1) == 1.0
    assert abs(ref.assd_pure(sq, q, 2) - ref.assd(sq, q, 2)) < 1e-12
    # greedy matching and its consistency checker
    table = {(1, 1): 0.8, (1, 2): 0.6, (2, 2): 0.55}
    elig = ref.eligibility("IOU", table, 0.5, True)
    M = ref.greedy("IOU", table, elig, False)
    assert M == {1: 1, 2: 2}
    assert ref.greedy_consistency("IOU", table, elig, M, False) == []
    assert ref.greedy_consistency("IOU", table, elig, {2: 1}, False)  # worse pair displaced the better one / (1,1) left out
    assert ref.greedy_consistency("IOU", table, elig, {1: 1}, False)  # (2,2) eligible with both partners unassigned
    assert ref.greedy_consistency("IOU", table, ref.eligibility("IOU", table, 0.7, True), {1: 1, 2: 2}, False)  # below threshold
    # ties: either outcome is consistent
    t2 = {(1, 1): 0.5, (2, 1): 0.5}
    e2 = ref.eligibility("IOU", t2, 0.5, True)
    assert ref.has_conflicting_tie("IOU", t2, e2, False)
    assert ref.greedy_consistency("IOU", t2, e2, {1: 1}, False) == []
    assert ref.greedy_consistency("IOU", t2, e2, {1: 2}, False) == []
    assert ref.greedy_consistency("IOU", t2, e2, {}, False)
    # lower-is-better direction
    t3 = {(1, 1): 1.0, (1, 2): 0.2}
    e3 = ref.eligibility("ASSD", t3, 1.5, True)
    assert ref.greedy("ASSD", t3, e3, False) == {2: 1}
    assert ref.greedy_consistency("ASSD", t3, e3, {1: 1}, False)
    # derived numbers
    R1, P1 = frozenset([(0,), (1,)]), frozenset([(0,), (1,)])
    R2, P2 = frozenset([(4,), (5,), (6,)]), frozenset([(5,), (6,), (7,)])
    ex = ref.evaluate_assignment([(R1, P1), (R2, P2)], n_pred=3, n_ref=2, ndim=1)
    assert ex["tp"] == 2 and ex["fp"] == 1 and ex["fn"] == 0
    assert ex["lists"]["IOU"] == [1.0, 0.5]
    assert ex["sq"] == 0.75 and abs(ex["sq_std"] - 0.25) < 1e-15
    assert abs(ex["rq"] - 2 / 2.5) < 1e-15 and abs(ex["pq"] - 0.75 * 0.8) < 1e-15
    ex = ref.evaluate_assignment([(R1, P1), (R2, P2)], 3, 2, 1, decision_metric="IOU", decision_threshold=0.6)
    assert ex["tp"] == 1 and ex["fp"] == 2 and ex["fn"] == 1 and ex["lists"]["IOU"] == [1.0]
    ex = ref.evaluate_assignment([], 0, 2, 1)
    assert ex["tp"] == 0 and ex["sq"] == 0.0 and math.isinf(ex["sq_assd"]) and math.isnan(ex["sq_std"]) and ex["rq"] == 0.0
    ex = ref.evaluate_assignment([], 0, 0, 1)
    assert math.isnan(ex["sq"]) and math.isnan(ex["rq"])
    ratio_order_selftest()
    print("reference model self-test: ok")


def ratio_order_selftest(trials=4000):
    """the C14 monitor decides "is there an order of these fragments that is a seed-then-strictly-improving process"
    for many fragments by adding them in ascending order of inside/outside ratio after each eligible seed; here that
    rule is compared with the exhaustive search over all orders on small random instances"""
    import itertools
    import random
    from fractions import Fraction

    rnd = random.Random(1)

    def f(I, O, R):
        return Fraction(I, R + O)

    for _ in range(trials):
        R = rnd.randint(3, 30)
        frags = [(rnd.randint(0, min(5, R)), rnd.randint(0, 8)) for _ in range(rnd.randint(2, 6))]
        frags = [x for x in frags if x[0] + x[1] > 0]
        if sum(i for i, _ in frags) > R or len(frags) < 2:
            continue
        thr = Fraction(rnd.randint(0, 10), 20)

        def valid(seq):
            I, O = seq[0]
            cur = f(I, O, R)
            if cur < thr:
                return False
            for i, o in seq[1:]:
                n = f(I + i, O + o, R)
                if not n > cur:
                    return False
                I, O, cur = I + i, O + o, n
            return True

        def ratio(x):
            return Fraction(x[0], x[1]) if x[1] else Fraction(10**18)

        exhaustive = any(valid(p) for p in itertools.permutations(frags))
        by_ratio = any(valid([frags[s]] + sorted(frags[:s] + frags[s + 1 :], key=ratio)) for s in range(len(frags)))
        if exhaustive != by_ratio:
            raise SystemExit("ratio-order rule disagrees with the exhaustive search: %r" % ((R, frags, thr),))


if __name__ == "__main__":
    main()
