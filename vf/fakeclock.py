"""A shifted wall clock for one `with` block: what the code under check reads through `time.time()`, `time.localtime()`,
`time.strftime()`, `datetime.datetime.now()`, `datetime.date.today()` ... lies `days` ahead -- the second half of a
history "save today, load and save again next week".  Monotonic clocks are untouched.  The classes are swapped in the
`datetime` module and in the namespaces of the already imported modules of the package under check (for
`from datetime import date`)."""

from __future__ import annotations

import contextlib
import datetime as _dt
import sys
import time as _time


@contextlib.contextmanager
def shifted(days: float = 3.0, seconds: float = 4321.0, package: str = "panoptica"):
    off = days * 86400.0 + seconds
    delta = _dt.timedelta(seconds=off)
    real_date, real_datetime = _dt.date, _dt.datetime
    r_time, r_time_ns, r_localtime, r_gmtime, r_strftime, r_ctime, r_asctime = _time.time, _time.time_ns, _time.localtime, _time.gmtime, _time.strftime, _time.ctime, _time.asctime

    class FakeDateTime(real_datetime):
        @classmethod
        def now(cls, tz=None):
            return real_datetime.now(tz) + delta

        @classmethod
        def utcnow(cls):
            return real_datetime.utcnow() + delta

        @classmethod
        def today(cls):
            return real_datetime.today() + delta

    class FakeDate(real_date):
        @classmethod
        def today(cls):
            return (real_datetime.now() + delta).date()

    patched = []

    def swap(ns, name, new):
        patched.append((ns, name, ns[name]))
        ns[name] = new

    swap(vars(_dt), "datetime", FakeDateTime)
    swap(vars(_dt), "date", FakeDate)
    for mname, mod in list(sys.modules.items()):
        if mod is None or not (mname == package or mname.startswith(package + ".")):
            continue
        for k, v in list(vars(mod).items()):
            if v is real_datetime:
                swap(vars(mod), k, FakeDateTime)
            elif v is real_date:
                swap(vars(mod), k, FakeDate)
    swap(vars(_time), "time", lambda: r_time() + off)
    swap(vars(_time), "time_ns", lambda: r_time_ns() + int(off * 1e9))
    swap(vars(_time), "localtime", lambda secs=None: r_localtime(r_time() + off if secs is None else secs))
    swap(vars(_time), "gmtime", lambda secs=None: r_gmtime(r_time() + off if secs is None else secs))
    swap(vars(_time), "strftime", lambda fmt, t=None: r_strftime(fmt, r_localtime(r_time() + off) if t is None else t))
    swap(vars(_time), "ctime", lambda secs=None: r_ctime(r_time() + off if secs is None else secs))
    swap(vars(_time), "asctime", lambda t=None: r_asctime(r_localtime(r_time() + off) if t is None else t))
    try:
        yield
    finally:
        for ns, name, old in reversed(patched):
            ns[name] = old
