"""C19 -- saving and loading a configuration reproduces the same evaluator."""

from __future__ import annotations

import contextlib
import io
import itertools
import os
import re
import tempfile

import numpy as np

from vf import gen, monitors, pan

ID = "C19"
LEVEL = "exploration"
TECHNIQUE = "runtime monitoring: round-trip monitor on the real save_to_config / load_from_config (byte-identical re-save) plus behavioural equality of original and loaded object on probe inputs that are proven sensitive to the option under test"
RULE = (
    "cases = evaluator configurations: every field varied away from its default one at a time (complete over the value lists: "
    "input type, backend, 10 matcher settings (incl. thresholds equal to / one ulp above a probe score), handlers, 9 group definitions (incl. unordered label values beyond 255), metric selections, decision metric/threshold, the "
    "three boolean flags), all pairs of fields (two non-default values each), seeded random full combinations; each "
    "SupportsConfig component and each enum member saved on its own; the five shipped YAML files. A probe input counts for an "
    "option only if toggling that option on the original object changes the observable result on it. Non-trivial = "
    "configuration with at least one sensitive probe; distinct = hash of the configuration."
    ' Further: every third re-save happens under a wall clock shifted by days; a deliberately failing save precedes the cases; by-name save/load with dotted names on a scratch copy of the package.'
)
ASSUMPTIONS = [
    "observable result = all reported metrics per group, whether computation_time is set, and the kinds of lines printed (for log_times / verbose)",
    "options for which no probe in the pool is sensitive are reported as inconclusive sub-results (counter C19.option_without_sensitive_probe), never as held",
]
MINIMUM = {"C19.byname_judged": 1, "C19.roundtrips_judged": 200, "C19.sensitive_probes_judged": 300, "C19.components_judged": 40, "C19.shipped_judged": 5}
BUDGET_S = {"quick": 1200, "thorough": 900}

BASE = {
    "input": "UNMATCHED_INSTANCE", "force_approx": True, "backend": None,
    "matcher": {"kind": "naive", "metric": "IOU", "thr": 0.5, "m2o": False},
    "handler": None, "std": "NAN", "groups": None, "metrics": ["DSC", "IOU", "ASSD", "RVD"], "global": ["DSC"],
    "dm": None, "dt": None, "save_group_times": False, "log_times": False, "verbose": False,
}
G4 = lambda kinds: {f"g{j}": {"labels": ls, "kind": k if k != "single" else "plain", "single": k == "single"} for j, (ls, k) in enumerate(kinds)}  # noqa: E731
FIELDS = {
    "input": ["SEMANTIC", "MATCHED_INSTANCE"],
    "backend": ["cc3d", "scipy"],
    "matcher": [
        {"kind": "naive", "metric": "IOU", "thr": 0.3, "m2o": False},
        {"kind": "naive", "metric": "IOU", "thr": 0.6000000000000001, "m2o": False},  # one ulp above the 12/20 probe score
        {"kind": "naive", "metric": "IOU", "thr": 4 / 9, "m2o": False},  # exactly the 8/18 probe score
        {"kind": "merge", "metric": "DSC", "thr": 0.7500000000000001},
        {"kind": "naive", "metric": "IOU", "thr": 1e-07, "m2o": False},   # written in exponent notation
        {"kind": "naive", "metric": "ASSD", "thr": 2.5e-06, "m2o": False},
        {"kind": "naive", "metric": "DSC", "thr": 0.5, "m2o": False},
        {"kind": "naive", "metric": "ASSD", "thr": 1.0, "m2o": False},
        {"kind": "naive", "metric": "IOU", "thr": 0.5, "m2o": True},
        {"kind": "merge", "metric": "IOU", "thr": 0.5},
        {"kind": "merge", "metric": "DSC", "thr": 0.3},
        {"kind": "merge", "metric": "ASSD", "thr": 2.0},
    ],
    "handler": [
        {"DSC": ("ONE", "INF", "NONE", "NAN"), "IOU": ("ZERO", "ONE", "INF", "NONE"), "ASSD": ("ZERO", "ONE", "NAN", "ZERO"), "RVD": ("ONE", "ZERO", "INF", "ONE"), "clDSC": ("NONE", "NAN", "ONE", "ZERO")},
        {"DSC": ("INF", "INF", "INF", "INF"), "IOU": ("ONE", "ONE", "ONE", "ONE"), "ASSD": ("ZERO", "ZERO", "ZERO", "ZERO"), "RVD": ("NONE", "NONE", "NONE", "NONE"), "clDSC": ("NAN", "NAN", "NAN", "NAN")},
        # tables that define only some metrics (a metric without entry must stay without entry: its zero-TP case raises), with the
        # library's own default values and with other values; the library's full default table spelled out
        {"DSC": ("NAN", "ZERO", "ZERO", "ZERO")},
        {"DSC": ("NAN", "ZERO", "ZERO", "ZERO"), "ASSD": ("NAN", "INF", "INF", "INF")},
        {"IOU": ("NAN", "ZERO", "ZERO", "ZERO"), "RVD": ("NAN", "NAN", "NAN", "NAN"), "clDSC": ("NAN", "ZERO", "ZERO", "ZERO")},
        {"IOU": ("ONE", "ZERO", "ZERO", "INF")},
        {"DSC": ("NAN", "ZERO", "ZERO", "ZERO"), "clDSC": ("NAN", "ZERO", "ZERO", "ZERO"), "IOU": ("NAN", "ZERO", "ZERO", "ZERO"), "ASSD": ("NAN", "INF", "INF", "INF"), "RVD": ("NAN", "NAN", "NAN", "NAN")},
        {},
    ],
    "std": ["ZERO", "INF", "NONE", "ONE"],
    "groups": [
        G4([([1, 2, 3, 4], "plain")]),
        G4([([1, 2, 3, 4], "merge")]),
        G4([([1, 2], "plain"), ([3, 4], "merge")]),
        G4([([1], "single"), ([2, 3, 4], "plain")]),
        G4([([1], "plain"), ([2], "merge"), ([3], "single"), ([4], "single")]),
        G4([([4, 3], "merge"), ([2, 1], "merge")]),
        # label values / orders for which the iteration order of a python set depends on the insertion order
        G4([([250, 3, 101, 26, 1, 2, 4], "plain")]),
        G4([([1, 300, 26, 282], "merge"), ([2, 3, 4, 1025, 9], "plain")]),
        G4([([4, 1, 65537, 17, 33], "plain"), ([2, 3], "merge")]),
    ],
    "metrics": [["DSC"], ["IOU", "ASSD"], ["DSC", "IOU", "ASSD", "RVD", "clDSC"], ["RVD", "IOU"]],
    "global": [[], ["IOU"], ["DSC", "ASSD", "RVD"], ["RVD", "DSC"]],
    "decision": [("IOU", 0.7), ("DSC", 0.9), ("ASSD", 0.5), ("IOU", 0.25), ("IOU", 0.6000000000000001), ("IOU", 4 / 9), ("ASSD", 0.0), ("IOU", 1e-07), ("DSC", 2.5e-06)],
    "save_group_times": [True],
    "log_times": [True],
    "verbose": [True],
}


def apply(cfg, field, value):
    c = dict(cfg)
    if field == "decision":
        c["dm"], c["dt"] = value if value else (None, None)
        if c["dm"] and c["dm"] not in c["metrics"]:
            c["metrics"] = list(c["metrics"]) + [c["dm"]]
    else:
        c[field] = value
    if field == "metrics" and c.get("dm") and c["dm"] not in c["metrics"]:
        c["metrics"] = list(c["metrics"]) + [c["dm"]]
    return c


def default_of(field):
    return None if field == "decision" else BASE[field]


def probes(input_type):
    """probe inputs with labels 1..4, valid for the input type (2-D and 3-D so clDice is defined)"""
    out = []
    dt = np.uint8
    a = np.zeros((6, 8), dt); b = np.zeros((6, 8), dt)  # noqa: E702
    a[0, 0] = a[1, 1] = a[2, 2] = 1; a[4, 4:7] = 2  # noqa: E702
    b[0, 0] = b[1, 1] = 1; b[2, 2] = 1; b[4, 3:7] = 2; b[5, 0] = 3  # noqa: E702
    out.append(("diag2d", a, b))
    a = np.zeros((3, 3, 4), dt); b = np.zeros((3, 3, 4), dt)  # noqa: E702
    a[0, 0, 0] = a[1, 1, 1] = 1; a[2, 2, 2:4] = 2  # noqa: E702
    b[0, 0, 0] = 1; b[1, 1, 1] = 1; b[2, 2, 1:4] = 2  # noqa: E702
    out.append(("diag3d", a, b))
    a = np.zeros((8, 12), dt); b = np.zeros((8, 12), dt)  # noqa: E702
    b[1:5, 1:5] = 1; a[1:5, 2:6] = 1  # IoU 12/20 = 0.6  # noqa: E702
    b[5:8, 6:12] = 2; a[6:8, 6:10] = 2  # IoU 8/18 = 0.44  # noqa: E702
    b[0:2, 8:12] = 3; a[0:1, 8:9] = 3  # IoU 1/8  # noqa: E702
    out.append(("shifted", a, b))
    a = np.zeros((6, 14), dt); b = np.zeros((6, 14), dt)  # noqa: E702
    b[1:5, 1:11] = 1; a[1:5, 1:7] = 1; a[1:5, 7:10] = 2; a[1:5, 10:13] = 3  # fragments of one reference  # noqa: E702
    b[5, 11:14] = 4; a[5, 12:14] = 4  # noqa: E702
    out.append(("fragments", a, b))
    a = np.zeros((5, 9), dt); b = np.zeros((5, 9), dt)  # noqa: E702
    b[1:4, 0:4] = 2; b[1:4, 5:9] = 1; a[1:4, 0:4] = 1; a[1:4, 5:8] = 2  # labels exchanged between the maps  # noqa: E702
    out.append(("permuted_labels", a, b))
    z = np.zeros((5, 6), dt)
    c = z.copy(); c[1:3, 1:4] = 1; c[4, 4:6] = 2  # noqa: E702
    out.append(("empty_pred", z.copy(), c.copy()))
    out.append(("empty_ref", c.copy(), z.copy()))
    out.append(("both_empty", z.copy(), z.copy()))
    d = z.copy(); d[3:5, 0:2] = 3  # noqa: E702
    out.append(("disjoint", d, c.copy()))
    r = gen.rng(1234, "c19probe")
    for k in range(3):
        p, q, _ = gen.random_pair(99, 800 + k, ndim=2, dtype=dt, max_inst=4, family=["noise", "split", "touch"][k])
        out.append((f"random{k}", np.minimum(p, 4), np.minimum(q, 4)))
    if input_type == "SEMANTIC":
        out = [(n, p.astype(np.int32) if i % 2 else p, q.astype(np.int32) if i % 2 else q) for i, (n, p, q) in enumerate(out)]
    return out


NUM = re.compile(r"[-+]?\d+\.?\d*(e[-+]?\d+)?")


def observe(ev, cfg, pred, refa):
    """observable result of one evaluation"""
    buf = io.StringIO()
    try:
        with contextlib.redirect_stdout(buf), np.errstate(all="ignore"):
            out = ev.evaluate(pred.copy(), refa.copy())
    except Exception as e:  # noqa: BLE001
        return ("ERR", type(e).__name__)
    res = {}
    for g, v in out.items():
        r = pan.read_result(v[0], ["DSC", "IOU", "ASSD", "RVD", "clDSC"])
        r["computation_time_set"] = v[0].computation_time is not None
        res[g] = r
    kinds = sorted({NUM.sub("#", line)[:40] for line in buf.getvalue().splitlines() if line.strip()})
    return ("OK", res, kinds)


def same_obs(a, b):
    if a[0] != b[0]:
        return False
    if a[0] == "ERR":
        return a == b
    if a[2] != b[2] or set(a[1]) != set(b[1]):
        return False
    for g in a[1]:
        ra, rb = a[1][g], b[1][g]
        for k in ra:
            if k == "lists":
                for m in ra["lists"]:
                    if not pan.same_list(ra["lists"][m], rb["lists"][m], abs_=0.0):
                        return False
            elif isinstance(ra[k], bool):
                if ra[k] != rb[k]:
                    return False
            elif not pan.same(ra[k], rb[k], abs_=0.0):
                return False
    return True


def cases(tier, seed):
    for f, vals in FIELDS.items():
        for vi in range(len(vals)):
            yield {"fam": "one", "field": f, "vi": vi}
    names = list(FIELDS)
    for f1, f2 in itertools.combinations(names, 2):
        for v1 in range(min(2, len(FIELDS[f1]))):
            for v2 in range(min(2, len(FIELDS[f2]))):
                yield {"fam": "pair", "f1": f1, "v1": v1, "f2": f2, "v2": v2}
    for i in range(300 if tier == "quick" else 8000):
        yield {"fam": "random", "i": i}
    for i in range(12):
        yield {"fam": "components", "i": i}
    for i in range(24 if tier == "quick" else 200):
        yield {"fam": "setters", "i": i}
    for i in range(5):
        yield {"fam": "shipped", "i": i}
    yield {"fam": "byname", "i": 0}


def setup(ctx):
    monitors.install(ctx, set())
    # a save that fails half way (a numpy scalar cannot be represented) must not affect later saves
    try:
        d = tempfile.mkdtemp(prefix="c19f_", dir=os.environ.get("VERIF_TMP"))
        with pan.quiet():
            pan.NaiveThresholdMatching(matching_threshold=np.float64(0.5)).save_to_config(os.path.join(d, "fails.yaml"))
        ctx.count("C19.numpy_scalar_save_succeeded")
    except Exception:  # noqa: BLE001
        ctx.count("C19.failed_save_before_cases")


def roundtrip(ctx, obj, cls, tmpdir, det, feats, tag):
    p1, p2 = os.path.join(tmpdir, f"{tag}_1.yaml"), os.path.join(tmpdir, f"{tag}_2.yaml")
    try:
        with pan.quiet():
            obj.save_to_config(p1)
            loaded = cls.load_from_config(p1)
            if ctx.counters.get("C19.roundtrips_judged", 0) % 3 == 1:
                # the loaded object is saved again some days later (the wall clock the library sees is shifted)
                from vf import fakeclock

                with fakeclock.shifted(days=3 + ctx.counters.get("C19.roundtrips_judged", 0) % 400):
                    loaded.save_to_config(p2)
                ctx.count("C19.resaved_on_a_later_day")
            else:
                loaded.save_to_config(p2)
    except Exception as e:  # noqa: BLE001
        ctx.viol("save_or_load_raised", dict(det, exc=type(e).__name__ + ": " + repr(e)[:300]), features=dict(feats, exc=type(e).__name__))
        return None
    with open(p1) as fh:
        t1 = fh.read()
    with open(p2) as fh:
        t2 = fh.read()
    ctx.count("C19.roundtrips_judged")
    if t1 != t2:
        ctx.viol("resaved_configuration_differs", dict(det, first=t1[:1500], second=t2[:1500]), features=feats)
        return None
    if type(loaded) is not type(obj):
        ctx.viol("loaded_object_has_other_type", dict(det, original=type(obj).__name__, loaded=type(loaded).__name__), features=feats)
        return None
    return loaded


def check_config(ctx, cfg, varied, tmpdir, tag):
    """varied: list of fields that differ from BASE"""
    det = {"cfg": cfg, "varied": varied}
    feats = {"varied": "+".join(sorted(varied))}
    try:
        ev = pan.make_evaluator(cfg)
    except Exception as e:  # noqa: BLE001  (invalid combination: constructor refuses it)
        ctx.count("skipped_invalid_configuration")
        return
    ctx.count("evaluations")
    loaded = roundtrip(ctx, ev, pan.Panoptica_Evaluator, tmpdir, det, feats, tag)
    if loaded is None:
        return
    pool = probes(cfg["input"])
    obs = {n: observe(ev, cfg, p, q) for n, p, q in pool}
    # behavioural equality on every probe
    for n, p, q in pool:
        ol = observe(loaded, cfg, p, q)
        ctx.count("C19.probes_compared")
        if not same_obs(obs[n], ol):
            ctx.viol("loaded_evaluator_behaves_differently", dict(det, probe=n, original=obs[n], loaded=ol, pred=p, ref=q), features=dict(feats, probe=n))
            return
    # sensitivity: for each varied option there must be a probe on which toggling it changes the result
    any_sensitive = False
    for f in varied:
        tcfg = apply(cfg, f, default_of(f))
        try:
            tev = pan.make_evaluator(tcfg)
        except Exception:  # noqa: BLE001
            ctx.count("C19.option_without_sensitive_probe")
            continue
        sens = [n for n, p, q in pool if not same_obs(obs[n], observe(tev, tcfg, p, q))]
        if sens:
            any_sensitive = True
            ctx.count("C19.sensitive_probes_judged", len(sens))
            ctx.count("f:C19.sensitive." + f)
        else:
            ctx.count("C19.option_without_sensitive_probe")
            ctx.count("f:C19.insensitive." + f)
    if any_sensitive:
        ctx.nontrivial(repr(cfg))


def context_for(field, cfg):
    """make the rest of the configuration relevant for the field under test"""
    c = dict(cfg)
    if field == "backend":
        c["input"] = "SEMANTIC"
    return c


def components(ctx, i, tmpdir):
    from panoptica.utils.constants import CCABackend
    from panoptica.utils.edge_case_handling import EdgeCaseZeroTP, EdgeCaseResult, MetricZeroTPEdgeCaseHandling, EdgeCaseHandler
    from panoptica.metrics import Metric, MetricMode, MetricType
    from panoptica import InputType

    r = gen.rng(ctx.seed, "c19comp", i)
    objs = []
    if i == 0:
        for enum in (CCABackend, EdgeCaseZeroTP, EdgeCaseResult, Metric, InputType, MetricMode, MetricType):
            for a in enum:
                objs.append((a, enum, "enum"))
    elif i == 1:
        for m in FIELDS["matcher"]:
            o = pan.make_matcher(m)
            objs.append((o, type(o), "matcher"))
        for b in (None, "cc3d", "scipy"):
            objs.append((pan.ConnectedComponentsInstanceApproximator(pan.BACKEND[b]), pan.ConnectedComponentsInstanceApproximator, "approximator"))
    elif i == 2:
        for g in FIELDS["groups"]:
            objs.append((pan.make_groups(g), pan.SegmentationClassGroups, "groups"))
            for spec in g.values():
                cls = pan.LabelMergeGroup if spec["kind"] == "merge" else pan.LabelGroup
                objs.append((cls(list(spec["labels"]), spec["single"]), cls, "labelgroup"))
    else:
        names = ["INF", "NAN", "ZERO", "ONE", "NONE"]
        for _ in range(6):
            h = {m: tuple(str(r.choice(names)) for _ in range(4)) for m in ("DSC", "IOU", "ASSD", "RVD", "clDSC")}
            objs.append((pan.make_handler(h, str(r.choice(names))), EdgeCaseHandler, "handler"))
            v = [pan.EDGE[str(r.choice(names))] for _ in range(4)]
            objs.append((MetricZeroTPEdgeCaseHandling(no_instances_result=v[0], empty_prediction_result=v[1], empty_reference_result=v[2], normal=v[3]), MetricZeroTPEdgeCaseHandling, "zerotp"))
    for k, (o, cls, kind) in enumerate(objs):
        det = {"component": kind, "object": repr(o)[:200]}
        feats = {"component": kind, "cls": cls.__name__}
        loaded = roundtrip(ctx, o, cls, tmpdir, det, feats, f"comp{i}_{k}")
        ctx.count("evaluations")
        if loaded is None:
            continue
        ctx.count("C19.components_judged")
        ctx.nontrivial("component", kind, repr(o))
        if kind == "enum":
            if not (loaded == o and loaded.name == o.name and loaded is o):
                ctx.viol("loaded_enum_differs", dict(det, loaded=repr(loaded)), features=feats)
            continue
        # behaviour: put original and loaded component into otherwise equal evaluators
        def ev_with(c):
            kw = dict(expected_input=pan.InputType.UNMATCHED_INSTANCE, instance_matcher=pan.make_matcher(BASE["matcher"]),
                      instance_approximator=pan.ConnectedComponentsInstanceApproximator(), global_metrics=[pan.Metric.DSC, pan.Metric.ASSD])
            it = "UNMATCHED_INSTANCE"
            if kind == "matcher":
                kw["instance_matcher"] = c
            elif kind == "approximator":
                kw["instance_approximator"] = c
                kw["expected_input"] = pan.InputType.SEMANTIC
                it = "SEMANTIC"
            elif kind == "groups":
                kw["segmentation_class_groups"] = c
            elif kind == "labelgroup":
                kw["segmentation_class_groups"] = pan.SegmentationClassGroups({"only": c, "rest": pan.LabelGroup([x for x in (1, 2, 3, 4) if x not in c.value_labels] or [9])})
            elif kind == "handler":
                kw["edge_case_handler"] = c
            elif kind == "zerotp":
                kw["edge_case_handler"] = pan.EdgeCaseHandler(listmetric_zeroTP_handling={m: c for m in pan.METRIC.values()})
            return pan.Panoptica_Evaluator(**kw), it
        try:
            e1, it = ev_with(o)
            e2, _ = ev_with(loaded)
        except Exception as e:  # noqa: BLE001
            ctx.viol("loaded_component_unusable", dict(det, exc=repr(e)[:300]), features=feats)
            continue
        for n, p, q in probes(it):
            a, b = observe(e1, None, p, q), observe(e2, None, p, q)
            ctx.count("C19.probes_compared")
            if not same_obs(a, b):
                ctx.viol("loaded_component_behaves_differently", dict(det, probe=n, original=a, loaded=b), features=dict(feats, probe=n))
                break


def setters(ctx, i, tmpdir):
    """an evaluator changed through its setters after construction, then saved and loaded"""
    r = gen.rng(ctx.seed, "c19set", i)
    it = ["UNMATCHED_INSTANCE", "SEMANTIC"][i % 2]
    cfg = dict(BASE, input=it)
    ev = pan.make_evaluator(cfg)
    before = pan.make_evaluator(cfg)
    m2 = FIELDS["matcher"][int(r.integers(0, len(FIELDS["matcher"])))]
    b2 = ["cc3d", "scipy"][i % 2]
    changed = []
    if i % 3 != 2:
        ev._set_instance_matcher(pan.make_matcher(m2))
        changed.append("matcher")
    if i % 3 != 1 and it == "SEMANTIC":
        ev._set_instance_approximator(pan.ConnectedComponentsInstanceApproximator(pan.BACKEND[b2]))
        changed.append("backend")
    if i % 2:
        ev.set_log_group_times(True)
        changed.append("save_group_times")
    det = {"cfg": cfg, "changed_through_setters": changed, "matcher": m2, "backend": b2}
    feats = {"varied": "setters:" + "+".join(changed)}
    ctx.count("evaluations")
    loaded = roundtrip(ctx, ev, pan.Panoptica_Evaluator, tmpdir, det, feats, "set")
    if loaded is None:
        return
    pool = probes(it)
    sens = 0
    for n, p, q in pool:
        a, b = observe(ev, cfg, p, q), observe(loaded, cfg, p, q)
        ctx.count("C19.probes_compared")
        if not same_obs(a, b):
            ctx.viol("loaded_evaluator_behaves_differently", dict(det, probe=n, original=a, loaded=b), features=dict(feats, probe=n))
            return
        if not same_obs(a, observe(before, cfg, p, q)):
            sens += 1
    if sens:
        ctx.count("C19.sensitive_probes_judged", sens)
        ctx.count("f:C19.sensitive.setters")
        ctx.nontrivial("setters", repr(det))
    else:
        ctx.count("C19.option_without_sensitive_probe")


BYNAME_SCRIPT = r"""
import json, os, sys
import panoptica
from panoptica import Panoptica_Evaluator, InputType, NaiveThresholdMatching, ConnectedComponentsInstanceApproximator
from panoptica.utils.segmentation_class import SegmentationClassGroups, LabelGroup
out = {"pkg": os.path.dirname(panoptica.__file__), "problems": []}
def ev(thr):
    return Panoptica_Evaluator(expected_input=InputType.UNMATCHED_INSTANCE, instance_matcher=NaiveThresholdMatching(matching_threshold=thr))
names = {"verif_study.v1": 0.25, "verif_study.v2": 0.75, "verif_plain": 0.5, "verif_study.v1.final": 0.125}
for n, t in names.items():
    ev(t).save_to_config_by_name(n)
for n, t in names.items():
    try:
        e = Panoptica_Evaluator.load_from_config_name(n)
        got = e._Panoptica_Evaluator__instance_matcher._matching_threshold
        if got != t:
            out["problems"].append({"name": n, "saved_threshold": t, "loaded_threshold": got})
    except Exception as ex:
        out["problems"].append({"name": n, "exc": repr(ex)[:300]})
# loading the same name twice gives two independent objects (changing one through its setters must not show in the other)
e1 = Panoptica_Evaluator.load_from_config_name("verif_plain")
e1.set_log_group_times(True)
e1._set_instance_matcher(NaiveThresholdMatching(matching_threshold=0.9))
e2 = Panoptica_Evaluator.load_from_config_name("verif_plain")
if e2 is e1 or e2._Panoptica_Evaluator__instance_matcher._matching_threshold != 0.5 or e2._Panoptica_Evaluator__save_group_times:
    out["problems"].append({"name": "verif_plain", "second_load_shares_state_with_first": True})
g = SegmentationClassGroups({"a": LabelGroup([1, 2]), "b": LabelGroup([3], True)})
g.save_to_config_by_name("verif_groups.x")
try:
    g2 = SegmentationClassGroups.load_from_config_name("verif_groups.x")
    if sorted(g2.keys()) != ["a", "b"] or g2["b"].single_instance is not True:
        out["problems"].append({"name": "verif_groups.x", "loaded": str(g2)})
except Exception as ex:
    out["problems"].append({"name": "verif_groups.x", "exc": repr(ex)[:300]})
json.dump(out, open(sys.argv[1], "w"))
"""


def byname(ctx, tmpdir):
    """save_to_config_by_name / load_from_config_name with dotted names.  These write into the package
    directory, so they run on a scratch copy of the package under check, in a subprocess."""
    import json
    import shutil
    import subprocess

    from vf import harness

    pkg = os.path.join(tmpdir, "pkgcopy")
    shutil.copytree(os.path.join(pan.REPO, "panoptica"), os.path.join(pkg, "panoptica"), ignore=shutil.ignore_patterns("__pycache__"))
    script = os.path.join(tmpdir, "byname.py")
    with open(script, "w") as fh:
        fh.write(BYNAME_SCRIPT)
    outp = os.path.join(tmpdir, "byname.json")
    env = dict(os.environ, PYTHONPATH=pkg, VERIF_REPO=pkg, PANOPTICA_CITATION_REMINDER="false")
    p = subprocess.run([harness.PY, "-B"] + harness.own_flags() + [script, outp], env=env, capture_output=True, text=True, timeout=300, cwd=tmpdir)
    ctx.count("evaluations")
    if not os.path.exists(outp):
        ctx.errors.append({"case": "byname", "tb": "by-name script failed: " + p.stderr[-1500:]})
        return
    res = json.load(open(outp))
    if not os.path.realpath(res["pkg"]).startswith(os.path.realpath(pkg)):
        ctx.errors.append({"case": "byname", "tb": "by-name script imported panoptica from " + res["pkg"]})
        return
    ctx.count("C19.byname_judged")
    ctx.nontrivial("byname")
    for pr in res["problems"]:
        ctx.viol("config_saved_by_name_loads_differently", pr, features={"by_name": True})
        break


SHIPPED = [
    ("panoptica_evaluator_BRATS", "evaluator"), ("panoptica_evaluator_ISLES", "evaluator"), ("panoptica_evaluator_VERSE", "evaluator"),
    ("panoptica_evaluator_unmatched_instance", "evaluator"), ("SegmentationClassGroups_example_unmatchedinstancepair", "groups"),
]


def shipped(ctx, i, tmpdir):
    name, kind = SHIPPED[i]
    cls = pan.Panoptica_Evaluator if kind == "evaluator" else pan.SegmentationClassGroups
    det = {"shipped": name}
    feats = {"shipped": name}
    ctx.count("evaluations")
    try:
        with pan.quiet():
            obj = cls.load_from_config_name(name)
    except Exception as e:  # noqa: BLE001
        ctx.viol("shipped_configuration_does_not_load", dict(det, exc=type(e).__name__ + ": " + repr(e)[:300]), features=feats)
        return
    loaded = roundtrip(ctx, obj, cls, tmpdir, det, feats, f"shipped{i}")
    if loaded is None:
        return
    ctx.count("C19.shipped_judged")
    ctx.nontrivial("shipped", name)
    if kind == "evaluator":
        z = np.zeros((4, 5), np.uint8)
        for n, p, q in [("both_empty", z, z)]:
            a, b = observe(obj, None, p, q), observe(loaded, None, p, q)
            if not same_obs(a, b):
                ctx.viol("loaded_evaluator_behaves_differently", dict(det, probe=n, original=a, loaded=b), features=feats)
    ctx.sample({"shipped": name, "type": type(obj).__name__})


def run(case, ctx):
    fam = case["fam"]
    tmpdir = tempfile.mkdtemp(prefix="c19_", dir=os.environ.get("VERIF_TMP"))
    if fam == "one":
        f, vi = case["field"], case["vi"]
        cfg = apply(context_for(f, BASE), f, FIELDS[f][vi])
        check_config(ctx, cfg, [f], tmpdir, "one")
        if vi == 0:
            ctx.sample({"varied": f, "value": FIELDS[f][vi]})
    elif fam == "pair":
        cfg = context_for(case["f1"], context_for(case["f2"], BASE))
        cfg = apply(cfg, case["f1"], FIELDS[case["f1"]][case["v1"]])
        cfg = apply(cfg, case["f2"], FIELDS[case["f2"]][case["v2"]])
        varied = [f for f in (case["f1"], case["f2"]) if not (f == "backend" and cfg["input"] != "SEMANTIC")]
        check_config(ctx, cfg, varied, tmpdir, "pair")
    elif fam == "random":
        r = gen.rng(ctx.seed, "c19rand", case["i"])
        cfg = dict(BASE)
        varied = []
        for f, vals in FIELDS.items():
            if r.random() < 0.5:
                cfg = apply(cfg, f, vals[int(r.integers(0, len(vals)))])
                varied.append(f)
        if "backend" in varied and cfg["input"] != "SEMANTIC":
            cfg["input"] = "SEMANTIC"
            if "input" not in varied:
                varied.append("input")
        check_config(ctx, cfg, varied, tmpdir, "rand")
    elif fam == "setters":
        setters(ctx, case["i"], tmpdir)
    elif fam == "components":
        components(ctx, case["i"] % 4 if case["i"] < 4 else 3, tmpdir)
    elif fam == "shipped":
        shipped(ctx, case["i"], tmpdir)
    elif fam == "byname":
        byname(ctx, tmpdir)
