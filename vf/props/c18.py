"""C18 -- what the aggregator writes is what the statistics loader reads."""

from __future__ import annotations

import math
import os
import tempfile

import numpy as np

from vf import gen, monitors, pan

ID = "C18"
LEVEL = "exploration"
TECHNIQUE = "runtime monitoring: end-to-end monitor real aggregator -> tsv file -> real statistics loader; every PanopticaResult handed to the aggregator is recorded at the evaluator boundary and compared value by value with what the loader returns"
RULE = (
    "cases = (evaluator configuration with 1..5 named groups, metric selections, edge-case handler, 1..10 subjects): group "
    "names drawn from printable strings with '-', '_', spaces, upper case, digits, unicode letters and quotes; subject names "
    "with spaces, quotes, '-', leading/trailing blanks and the literal 'subject_name'; handlers producing NaN / inf / None / "
    "0 / 1; inputs with empty sides per group so that some metrics are uncomputable. Non-trivial = file with at least one "
    "finite and one missing value; distinct = hash of (configuration, subjects, inputs)."
    ' Further families: the file continued by an evaluator declaring the groups in another order, values in exponent notation, round trips in an interpreter whose locale encoding is ASCII.'
)
ASSUMPTIONS = [
    "printable names without control characters (tab/newline are the file format's separators)",
    "bit-identity is demanded for finite values; NaN, +-inf, None and absent entries must load as missing (None)",
]
MINIMUM = {"C18.files_judged": 150, "C18.values_judged": 20000, "f:C18.group_name_with_dash": 20, "f:C18.missing_values": 1000}
BUDGET_S = {"quick": 1200, "thorough": 900}

GROUP_NAMES = ["liver", "a-b", "left_lung", "with space", "upper", "v2.0", "größe", 'qu"ote', "a-b-c", "-lead", "trail-", "x", "tab_free", "ünï", "it's"]
SUBJECT_NAMES = ["case 01", "sub-001", 'q"uote', " lead", "trail ", "subject_name", "s,comma", "ünï-code", "UPPER", "a'b", "x-y-z", "0", "-", "name with  two  spaces"]


def cases(tier, seed):
    for i in range(1000 if tier == "quick" else 16000):
        yield {"fam": "file", "i": i}
    for i in range(4 if tier == "quick" else 32):
        yield {"fam": "locale", "i": i}


def locale_roundtrip(ctx, i, prop_kinds=("names_not_recovered_under_non_utf8_locale", "loader_raised_under_non_utf8_locale")):
    """writer and reader run in an interpreter whose locale encoding is ASCII: non-ASCII subject and group names (the
    files are UTF-8) must come back unchanged, with their values"""
    import json
    import subprocess
    import tempfile

    from vf import harness

    d = tempfile.mkdtemp(prefix="loc_", dir=os.environ.get("VERIF_TMP"))
    env = dict(os.environ, LC_ALL="C", LANG="C", PYTHONUTF8="0", PYTHONCOERCECLOCALE="0", PYTHONIOENCODING="utf-8")
    ctx.count("evaluations")
    try:
        p = subprocess.run([harness.PY, "-B"] + harness.own_flags() + ["-m", "vf.helpers.locale_roundtrip", d, str(ctx.seed * 100 + i)], env=env, cwd=harness.VERIF, capture_output=True, text=True, timeout=600, encoding="utf-8")
        out = json.loads(p.stdout.strip().splitlines()[-1])
    except Exception as e:  # noqa: BLE001
        ctx.errors.append({"case": {"fam": "locale", "i": i}, "tb": "locale helper failed: %r" % (e,)})
        return
    if out.get("encoding", "").lower().replace("-", "") in ("utf8",):
        ctx.count("locale_helper_still_utf8")  # this platform coerces the locale: nothing to judge
        return
    ctx.count("f:non_utf8_locale_roundtrips")
    if "ERR" in out:
        ctx.viol(prop_kinds[1], {"exc": out["ERR"], "locale_encoding": out.get("encoding")}, features={"locale": "C"})
        return
    if out["subjects_read"] != out["subjects_written"] or sorted(out["groups_read"]) != sorted(out["groups"]) or any(
        not pan.same(out["got_sq"].get(s_, {}).get(g), v) for s_, gs in out["expected_sq"].items() for g, v in gs.items()
    ):
        ctx.viol(prop_kinds[0], {k: out[k] for k in ("subjects_written", "subjects_read", "groups", "groups_read", "expected_sq", "got_sq")}, features={"locale": "C"})
        return
    ctx.nontrivial("locale", i)


def setup(ctx):
    monitors.install(ctx, set())


def run(case, ctx):
    from panoptica import Panoptica_Aggregator, Panoptica_Statistic

    i = case["i"]
    if case.get("fam") == "locale":
        return locale_roundtrip(ctx, i)
    r = gen.rng(ctx.seed, "c18", i)
    ng = int(r.integers(1, 6))
    names = [str(x) for x in r.choice(GROUP_NAMES, size=ng, replace=False)]
    if i % 4 == 0:
        names = [n.upper() if k % 2 else n for k, n in enumerate(names)]
    labels = list(range(1, 2 * ng + 1))
    gdef = {}
    for k, n in enumerate(names):
        kind = str(r.choice(["plain", "merge"]))
        gdef[n] = {"labels": [labels[2 * k], labels[2 * k + 1]], "kind": kind, "single": False}
    it = ["UNMATCHED_INSTANCE", "SEMANTIC", "MATCHED_INSTANCE"][i % 3]
    all_m = ["DSC", "IOU", "ASSD", "RVD"]
    metrics = [m for m in all_m if r.random() < 0.7] or ["DSC"]
    gms = [m for m in all_m if r.random() < 0.4]
    res_names = ["INF", "NAN", "ZERO", "ONE", "NONE"]
    handler = {m: tuple(str(r.choice(res_names)) for _ in range(4)) for m in all_m + ["clDSC"]}
    cfg = {
        "input": it, "backend": None, "groups": gdef, "metrics": metrics, "global": gms, "handler": handler, "std": str(r.choice(res_names)),
        "matcher": None if it == "MATCHED_INSTANCE" else {"kind": "naive", "metric": "IOU", "thr": float(r.choice([0.5, 0.2, 0.8]))},
    }
    if it == "MATCHED_INSTANCE" and "IOU" in metrics and r.random() < 0.4:
        cfg.update(dm="IOU", dt=0.7)
    if i % 4 == 2:
        cfg["use_default_lists"] = True  # the constructor's own (shared) default metric lists
        cfg["handler"] = None
    ev = pan.make_evaluator(cfg)
    recorded = {}
    real_eval = ev.evaluate
    current = {}

    def spy(*a, **k):  # the evaluator call inside Panoptica_Aggregator.evaluate
        out = real_eval(*a, **k)
        recorded[current["name"]] = {g: v[0].to_dict() for g, v in out.items()}
        return out

    ev.evaluate = spy
    tmpdir = tempfile.mkdtemp(prefix="c18_", dir=os.environ.get("VERIF_TMP"))
    path = os.path.join(tmpdir, "out.tsv")
    ns = int(r.integers(1, 11))
    subjects = [str(x) for x in r.choice(SUBJECT_NAMES, size=min(ns, len(SUBJECT_NAMES)), replace=False)]
    det = {"cfg": cfg, "subjects": subjects, "group_names": names}
    feats = {"group_name_with_dash": any("-" in n for n in names), "subject_named_subject_name": "subject_name" in subjects, "input": it}
    if feats["group_name_with_dash"]:
        ctx.count("f:C18.group_name_with_dash")
    ctx.count("evaluations")
    try:
        with pan.quiet(), np.errstate(all="ignore"):
            agg = Panoptica_Aggregator(ev, path)
            keys = list(ev.resulting_metric_keys)
            gnames = list(ev.segmentation_class_groups_names)
            for s in subjects:
                pred, refa, _ = gen.random_pair(ctx.seed, 70000 + i * 16 + len(recorded), ndim=int(r.choice((1, 2))), dtype=np.uint8, max_inst=4,
                                                family=str(r.choice(["shift", "rects", "noise", "empty", "split"])))
                # spread labels over the groups; leave some groups empty on one side
                pred = np.where(pred > 0, (pred - 1) % (2 * ng) + 1, 0).astype(np.uint8)
                refa = np.where(refa > 0, (refa - 1) % (2 * ng) + 1, 0).astype(np.uint8)
                if s == subjects[0] and i % 4 == 1:
                    # a large instance that is one voxel off: relative volume differences of 5e-05 (exponent notation)
                    refa = np.zeros(20010, dtype=np.uint8)
                    pred = np.zeros(20010, dtype=np.uint8)
                    refa[2:20002] = 1
                    pred[2:20003] = 1
                    ctx.count("f:C18.values_in_exponent_notation")
                if s == subjects[len(subjects) // 2] and i % 4 == 2:
                    try:  # some other evaluator is constructed in the same process while the aggregator is in use
                        pan.Panoptica_Evaluator(expected_input=pan.InputType.MATCHED_INSTANCE, decision_metric=pan.Metric.clDSC, decision_threshold=0.5)
                    except Exception:  # noqa: BLE001
                        pass
                current["name"] = s
                agg.evaluate(pred, refa, s)
    except Exception as e:  # noqa: BLE001
        ctx.viol("aggregation_raised", dict(det, exc=type(e).__name__ + ": " + repr(e)[:300]), features=dict(feats, exc=type(e).__name__))
        return
    try:
        with pan.quiet():
            st = Panoptica_Statistic.from_file(path)
    except Exception as e:  # noqa: BLE001
        with open(path, encoding="utf8") as fh:
            head = fh.readline()
        ctx.viol("loader_raised", dict(det, exc=type(e).__name__ + ": " + repr(e)[:300], header=head[:400]), features=dict(feats, exc=type(e).__name__))
        return
    ctx.count("C18.files_judged")
    n_missing = n_finite = 0
    for s in subjects:
        if s not in recorded:
            ctx.viol("subject_never_evaluated", dict(det, subject=s), features=feats)
            return
        try:
            one = st.get_one_subject(s)
        except Exception as e:  # noqa: BLE001
            ctx.viol("subject_missing_from_statistics", dict(det, subject=s, exc=repr(e)[:200], loaded_subjects=list(st.subjectnames)), features=feats)
            return
        for g in gnames:
            if g not in one:
                ctx.viol("group_missing_from_statistics", dict(det, group=g, loaded_groups=list(st.groupnames)), features=feats)
                return
            for k in keys:
                ctx.count("C18.values_judged")
                want = recorded[s][g].get(k)
                want = pan.pyval(want)
                if want is None or (isinstance(want, float) and not math.isfinite(want)):
                    want = None
                    n_missing += 1
                else:
                    want = float(want)
                    n_finite += 1
                if k not in one[g]:
                    ctx.viol("metric_missing_from_statistics", dict(det, group=g, metric=k), features=feats)
                    return
                got = one[g][k]
                same = (got is None and want is None) or (got is not None and want is not None and (got == want and math.copysign(1, got) == math.copysign(1, want)))
                if not same:
                    ctx.viol("loaded_value_differs", dict(det, subject=s, group=g, metric=k, got=got, expected=want, raw=recorded[s][g].get(k)),
                             features=dict(feats, expected_missing=want is None, raw=repr(recorded[s][g].get(k))[:12]))
                    return
    # the same file continued by an evaluator that declares the same groups in another order: either refused,
    # or every value still comes back under its own group
    if ng >= 2 and i % 3 == 0:
        cfg2 = dict(cfg, groups=dict(reversed(list(gdef.items()))))
        ev2 = pan.make_evaluator(cfg2)
        real2 = ev2.evaluate
        rec2 = {}

        def spy2(*a, **k):
            out = real2(*a, **k)
            rec2["extra subject"] = {g: v[0].to_dict() for g, v in out.items()}
            return out

        ev2.evaluate = spy2
        try:
            with pan.quiet(), np.errstate(all="ignore"):
                agg2 = Panoptica_Aggregator(ev2, path)
        except Exception:  # noqa: BLE001
            ctx.count("C18.reordered_groups_refused")
            agg2 = None
        if agg2 is not None:
            pred, refa, _ = gen.random_pair(ctx.seed, 79000 + i, ndim=1, dtype=np.uint8, max_inst=4, family="shift")
            pred = np.where(pred > 0, (pred - 1) % (2 * ng) + 1, 0).astype(np.uint8)
            refa = np.where(refa > 0, (refa - 1) % (2 * ng) + 1, 0).astype(np.uint8)
            try:
                with pan.quiet(), np.errstate(all="ignore"):
                    agg2.evaluate(pred, refa, "extra subject")
                    st2 = Panoptica_Statistic.from_file(path)
                    one = st2.get_one_subject("extra subject")
            except Exception as e:  # noqa: BLE001
                ctx.viol("continuing_with_reordered_groups_failed_late", dict(det, exc=repr(e)[:300]), features=dict(feats, reordered=True))
                return
            ctx.count("C18.reordered_groups_accepted")
            for g in rec2.get("extra subject", {}):
                for k in keys:
                    want = pan.pyval(rec2["extra subject"][g].get(k))
                    want = None if want is None or (isinstance(want, float) and not math.isfinite(want)) else float(want)
                    got = one.get(g, {}).get(k, "absent")
                    if not ((got is None and want is None) or (got is not None and want is not None and got == want)):
                        ctx.viol("value_filed_under_wrong_group_after_reordering", dict(det, group=g, metric=k, got=got, expected=want), features=dict(feats, reordered=True))
                        return
    ctx.count("f:C18.missing_values", n_missing)
    if n_missing and n_finite:
        ctx.nontrivial(repr(cfg), subjects, i)
    if i % 25 == 0:
        ctx.sample({"groups": gnames, "subjects": subjects, "metrics": keys[:8], "n_finite": n_finite, "n_missing": n_missing})
