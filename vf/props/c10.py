"""C10 -- results are invariant under padding, translation, flips and axis permutation."""

from __future__ import annotations

import itertools

import numpy as np

from vf import gen, meta, monitors, pan

ID = "C10"
LEVEL = "exploration"
TECHNIQUE = "runtime monitoring: metamorphic monitor (pad / crop / flip / permute / memory layout) comparing two executions of the real evaluate(); shards run under faulthandler and the debug allocator so a native crash on exotic layouts is an observed event"
RULE = (
    "cases = (base pair, transformation, input type, matcher): every flip subset and axis permutation for 1-D..3-D, zero "
    "padding 0..4 per side independently (instances exactly on / one voxel off the array border), tight crop of shared empty "
    "margins, memory layouts C / Fortran / reversed views / strided views of a larger buffer / transposed views / read-only. "
    "Only cases with a uniquely determined matching are judged (a flip changes the scan order and thereby the tie-break). "
    "Non-trivial = judged case with at least one instance on both sides; distinct = hash of (base arrays, transformation, configuration)."
    ' Further families: prediction and reference in different layouts; nearly tied candidates under flips; bars through the whole field of view (crops above 32^3 voxels) under padding; instance counts around 15 x 16 and 255 x 256 under flips, transposition and padding.'
)
ASSUMPTIONS = ["merge matcher with ASSD is excluded (a flip changes float summation order and can flip an exactly-equal merge decision)", "base case judged against the reference model by C01"]
MINIMUM = {"C10.judged": 3000, "f:C10.layout": 300, "f:C10.pad": 300, "f:C10.flip": 300, "f:C10.perm": 200}
BUDGET_S = {"quick": 1200, "thorough": 900}
MALLOC_DEBUG = True


def cases(tier, seed):
    for i in range(1400 if tier == "quick" else 30000):
        yield {"fam": "rand", "i": i}
    for i in range(16 if tier == "quick" else 160):
        yield {"fam": "special", "i": i}
    for i in range(16 if tier == "quick" else 160):
        yield {"fam": "counts", "i": i}


def setup(ctx):
    monitors.install(ctx, set())


def layouts(arr, r):
    """same values, different memory layout"""
    out = [("fortran", np.asfortranarray(arr))]
    big = np.zeros(tuple(2 * s + 1 for s in arr.shape), dtype=arr.dtype)
    sl = tuple(slice(1, 2 * s + 1, 2) for s in arr.shape)
    big[sl] = arr
    out.append(("strided_view", big[sl]))
    rev = np.ascontiguousarray(arr[tuple(slice(None, None, -1) for _ in arr.shape)])
    out.append(("negative_strides", rev[tuple(slice(None, None, -1) for _ in arr.shape)]))
    if arr.ndim >= 2:
        t = np.ascontiguousarray(arr.T)
        out.append(("transposed_view", t.T))
    ro = arr.copy()
    ro.setflags(write=False)
    out.append(("read_only", ro))
    return out


def special(ctx, i):
    """(a) large instances with nearly tied competing candidates under flips; (b) volumes of more than 32^3 voxels whose
    instances touch two opposite faces, under padding"""
    r = gen.rng(ctx.seed, "c10s", i)
    if i % 2 == 0:
        pred, refa = gen.near_tie_pair(ctx.seed, i // 2)
        pred, refa = (pred != 0).astype(np.uint8), refa.astype(np.uint32)
        refa = (refa != 0).astype(np.uint8) * np.where(refa == refa.max(), 2, 1).astype(np.uint8)  # two classes, touching
        cfg = {"input": "SEMANTIC", "backend": "cc3d", "matcher": {"kind": "naive", "metric": ["IOU", "DSC"][(i // 2) % 2], "thr": 0.3, "m2o": False}, "metrics": ["DSC", "IOU", "RVD"], "global": ["DSC"]}
        trans = [("flip", lambda a: a[::-1]), ("flip_copy", lambda a: np.ascontiguousarray(a[::-1])), ("pad", lambda a: np.pad(a, (3, 1)))]
        mets = ["DSC", "IOU", "RVD"]
    else:
        n = 34 if (i // 6) % 2 else 44  # the thick bar's crop (2 voxels margin) holds more than 32^3 voxels
        a, b = (10, 20) if n == 34 else (6, 34)
        refa = np.zeros((n, n, n), dtype=np.uint8)
        pred = np.zeros_like(refa)
        ax = (i // 2) % 3
        sl = [slice(a, b)] * 3
        sl[ax] = slice(None)  # a bar through the whole field of view along one axis
        refa[tuple(sl)] = 1
        sl2 = [slice(a + 1, b + 2)] * 3
        sl2[ax] = slice(None)
        pred[tuple(sl2)] = 1
        cfg = {"input": "MATCHED_INSTANCE", "matcher": None, "metrics": ["DSC", "IOU", "ASSD"], "global": ["ASSD"]}
        trans = [("pad", lambda a: np.pad(a, [(2, 3)] * 3)), ("pad_one_side", lambda a: np.pad(a, [(0, 1), (1, 0), (0, 0)]))]
        mets = ["DSC", "IOU", "ASSD"]
    base = meta.run(cfg, pred, refa)
    ctx.count("evaluations")
    keys = ["num_ref_instances", "num_pred_instances", "tp", "fp", "fn", "rq", "sq", "sq_dsc", "pq"] + (["sq_assd", "global_bin_assd"] if "ASSD" in mets else ["sq_rvd", "global_bin_dsc"])
    for name, fn in trans:
        t = meta.run(cfg, fn(pred), fn(refa))
        ctx.count("evaluations")
        ctx.count("C10.judged")
        ctx.count("f:C10.special")
        d = meta.diff(base, t, metrics=mets, keys=keys)
        if d is not None:
            ctx.viol("result_changed_by_transformation", {"case": "near_tie" if i % 2 == 0 else "bar_through_volume", "transformation": name, "key": d, "shape": list(pred.shape), "cfg": cfg,
                                                          "base": {k: base.get(k) for k in keys}, "transformed": {k: t.get(k) for k in keys} if "ERR" not in t else t},
                     features={"input": cfg["input"], "transformation": name.split("_")[0], "key": d.split(":")[0], "special": True})
    ctx.nontrivial("special", i)


def counts(ctx, i):
    """instance counts in the windows where products / sums of label numbers cross 2^8 and 2^16 (n x (n+1) around 256,
    n around 256): which component gets the highest number depends on the scan order, i.e. on flips"""
    n_ref = int([16, 17, 15, 23, 256, 255, 257, 12][i % 8])
    n_pred = n_ref - 1 if i % 3 else n_ref
    w = 3 * n_ref + 2
    refa = np.zeros((2, w), dtype=np.uint8)
    pred = np.zeros((2, w), dtype=np.uint8)
    for k in range(n_ref):
        refa[:, 3 * k : 3 * k + 2] = 1
    off = n_ref - n_pred  # the prediction lacks the first component(s): prediction k lies on reference k + off
    for k in range(n_pred):
        pred[0, 3 * (k + off) : 3 * (k + off) + 2] = 1
    it = ["SEMANTIC", "UNMATCHED_INSTANCE"][(i // 8) % 2]
    if it == "UNMATCHED_INSTANCE":
        lab = np.zeros_like(refa, dtype=np.uint16)
        for k in range(n_ref):
            lab[:, 3 * k : 3 * k + 2] = k + 1
        refa = lab
        lab = np.zeros_like(pred, dtype=np.uint16)
        for k in range(n_pred):
            lab[0, 3 * (k + off) : 3 * (k + off) + 2] = k + 1
        pred = lab
    cfg = {"input": it, "backend": [None, "cc3d", "scipy"][i % 3], "matcher": {"kind": "naive", "metric": "IOU", "thr": 0.4, "m2o": False}, "metrics": ["DSC", "IOU"], "global": ["DSC"]}
    base = meta.run(cfg, pred, refa)
    ctx.count("evaluations")
    keys = ["num_ref_instances", "num_pred_instances", "tp", "fp", "fn", "rq", "sq", "sq_dsc", "pq", "global_bin_dsc"]
    trans = [("flip_axis1", lambda a: a[:, ::-1]), ("flip_both_copy", lambda a: np.ascontiguousarray(a[::-1, ::-1])), ("transpose", lambda a: np.ascontiguousarray(a.T)), ("pad", lambda a: np.pad(a, [(1, 0), (2, 3)]))]
    for name, fn in trans:
        t = meta.run(cfg, fn(pred), fn(refa))
        ctx.count("evaluations")
        ctx.count("C10.judged")
        ctx.count("f:C10.count_windows")
        d = meta.diff(base, t, metrics=["DSC", "IOU"], keys=keys)
        if d is not None:
            ctx.viol("result_changed_by_transformation", {"case": "count_window", "n_ref": n_ref, "n_pred": n_pred, "transformation": name, "key": d, "cfg": cfg,
                                                          "base": {k: base.get(k) for k in keys} if "ERR" not in base else base, "transformed": {k: t.get(k) for k in keys} if "ERR" not in t else t},
                     features={"input": it, "transformation": name.split("_")[0], "key": d.split(":")[0], "count_window": True})
            return
    if "ERR" not in base and base["tp"] != n_pred:
        ctx.viol("result_changed_by_transformation", {"case": "count_window", "n_ref": n_ref, "n_pred": n_pred, "note": "every prediction lies on one reference: tp must equal the number of predictions in every orientation", "tp": base["tp"]},
                 features={"input": it, "transformation": "none", "key": "tp", "count_window": True})
        return
    ctx.nontrivial("counts", i)


def run(case, ctx):
    if case.get("fam") == "special":
        return special(ctx, case["i"])
    if case.get("fam") == "counts":
        return counts(ctx, case["i"])
    i = case["i"]
    r = gen.rng(ctx.seed, "c10", i)
    it = ["UNMATCHED_INSTANCE", "SEMANTIC", "MATCHED_INSTANCE"][i % 3]
    mk = [{"kind": "naive", "m2o": False}, {"kind": "naive", "m2o": True}, {"kind": "merge"}][(i // 3) % 3]
    metric = ["IOU", "DSC", "ASSD"][(i // 9) % 3]
    if mk["kind"] == "merge" and metric == "ASSD":
        metric = "IOU"
    thr = {"IOU": [0.5, 0.2], "DSC": [0.5, 0.3], "ASSD": [1.5, 4.0]}[metric][i % 2]
    cfg = {"input": it, "backend": [None, "cc3d", "scipy"][(i // 2) % 3], "matcher": None if it == "MATCHED_INSTANCE" else dict(mk, metric=metric, thr=thr),
           "global": ["DSC", "IOU", "ASSD", "RVD"]}
    pred, refa, f = gen.random_pair(ctx.seed, 30000 + i, dtype=[np.uint8, np.uint16][i % 2], max_inst=5)
    ctx.count("f:family." + f)
    if it == "MATCHED_INSTANCE":
        pred = gen.make_matched(pred, refa, r)
    elif it == "SEMANTIC":
        pred, refa = gen.to_semantic(pred, r, 2), gen.to_semantic(refa, r, 2)
        if i % 4 == 1:
            pred, refa = pred.astype(np.int16), refa.astype(np.int16)
    if not meta.unique_matching(pred, refa, cfg):
        ctx.count("skipped_matching_not_unique")
        return
    base = meta.run(cfg, pred, refa)
    ctx.count("evaluations")
    if "ERR" in base:
        ctx.viol("evaluate_raised", {"pred": pred, "ref": refa, "cfg": cfg, "exc": base["ERR"]}, features={"input": it, "stage": "base"})
        return
    ndim = pred.ndim
    trans = []
    # all flips
    for k in range(1, ndim + 1):
        for axes in itertools.combinations(range(ndim), k):
            trans.append(("flip", {"axes": list(axes)}, lambda a, axes=axes: np.flip(a, axis=axes)))
    # all axis permutations
    for perm in itertools.permutations(range(ndim)):
        if perm != tuple(range(ndim)):
            trans.append(("perm", {"perm": list(perm)}, lambda a, perm=perm: np.transpose(a, perm)))
            trans.append(("perm_contiguous", {"perm": list(perm)}, lambda a, perm=perm: np.ascontiguousarray(np.transpose(a, perm))))
    # paddings 0..4 per side independently (3 draws) + all-zero padding after tight crop
    for _ in range(3):
        pads = [(int(r.integers(0, 5)), int(r.integers(0, 5))) for _ in range(ndim)]
        trans.append(("pad", {"pads": pads}, lambda a, pads=pads: np.pad(a, pads)))
    fg = np.argwhere((pred != 0) | (refa != 0))
    if len(fg):
        lo, hi = fg.min(axis=0), fg.max(axis=0) + 1
        sl = tuple(slice(int(x), int(y)) for x, y in zip(lo, hi))
        trans.append(("crop", {"crop": [(s.start, s.stop) for s in sl]}, lambda a, sl=sl: a[sl]))
        trans.append(("crop_copy", {"crop": [(s.start, s.stop) for s in sl]}, lambda a, sl=sl: a[sl].copy()))
        one = [(1, 0) if k % 2 else (0, 1) for k in range(ndim)]
        trans.append(("pad", {"pads": one, "after_crop": True}, lambda a, sl=sl, one=one: np.pad(a[sl], one)))
    judged_any = False
    for name, params, fn in trans:
        p2, r2 = fn(pred), fn(refa)
        t = meta.run(cfg, p2, r2)
        ctx.count("evaluations")
        ctx.count("C10.judged")
        ctx.count("f:C10." + name.split("_")[0])
        d = meta.diff(base, t)
        if d is not None:
            ctx.viol("result_changed_by_transformation", {"pred": pred, "ref": refa, "cfg": cfg, "transformation": name, "params": params, "key": d,
                                                          "base": base if "ERR" in base else {k: v for k, v in base.items() if k != "lists"},
                                                          "transformed": t if "ERR" in t else {k: v for k, v in t.items() if k != "lists"}},
                     features={"input": it, "transformation": name.split("_")[0], "key": d.split(":")[0]})
        else:
            judged_any = True
    pl = layouts(pred, r)
    rl = layouts(refa, r)
    combos = list(zip(pl, rl))
    # prediction and reference in *different* memory layouts (values unchanged)
    combos += [(pl[j], rl[(j + 1) % len(rl)]) for j in range(len(pl))] + [(("c_order", pred), rl[0]), (pl[0], ("c_order", refa))]
    for (n1, p2), (n2, r2) in combos:
        if n1 != n2:
            n1 = n1 + "+" + n2
            ctx.count("f:C10.mixed_layouts")
        t = meta.run(cfg, p2, r2)
        ctx.count("evaluations")
        ctx.count("C10.judged")
        ctx.count("f:C10.layout")
        d = meta.diff(base, t)
        if d is not None:
            ctx.viol("result_changed_by_memory_layout", {"pred": pred, "ref": refa, "cfg": cfg, "layout": n1, "key": d,
                                                         "transformed": t if "ERR" in t else {k: v for k, v in t.items() if k != "lists"}},
                     features={"input": it, "layout": n1, "key": d.split(":")[0]})
    if judged_any and pred.any() and refa.any():
        ctx.nontrivial(gen.arr_key(pred, refa), cfg)
    if i % 70 == 0:
        ctx.sample({"input": it, "shape": list(pred.shape), "cfg": cfg, "transformations": [n for n, _, _ in trans], "tp": base["tp"]})
