"""C11 -- exchanging prediction and reference mirrors the result."""

from __future__ import annotations

from fractions import Fraction

import numpy as np

from vf import gen, meta, monitors, pan, ref

ID = "C11"
LEVEL = "exploration"
TECHNIQUE = "runtime monitoring: metamorphic monitor comparing evaluate(pred, ref) with evaluate(ref, pred) on the real code (mirrored-result relation; RVD mapped through exact rationals)"
RULE = (
    "cases = (label-map pair, input type, one-to-one threshold matcher with IoU/Dice/ASSD, threshold class): tiny enumerated "
    "pairs (1-D length 4 and 2x2 over {0,1,2}) and generated families, all threshold classes of the input; only cases with a "
    "uniquely determined matching are judged. Non-trivial = judged case with tp > 0 and the two maps different; distinct = "
    "hash of (arrays, configuration)."
    ' Further families: pair codes at the dtype boundaries, labels beyond 2^24 / 2^25 shared between the sides, class labels used by one side only, about 256 components on one side only, sparse volumes beyond 2^18 / 2^20 / 2^22 voxels.'
)
ASSUMPTIONS = ["RVD values are quotients of voxel counts below 10^6, recovered exactly with Fraction.limit_denominator"]
MINIMUM = {"C11.judged": 3000, "C11.rvd_values_judged": 1000}
BUDGET_S = {"quick": 1200, "thorough": 900}

TINY = {"t1d4": ((4,), 3, 3), "t2x2": ((2, 2), 3, 3)}


def cases(tier, seed):
    for name, (shape, alpha, stride) in TINY.items():
        n = gen.tiny_count(shape, alpha)
        step = 1 if tier == "thorough" else stride
        for i in range(seed % step, n, step):
            yield {"fam": name, "i": i}
    for i in range(1500 if tier == "quick" else 40000):
        yield {"fam": "rand", "i": i}
    for i in range(270 if tier == "quick" else 2700):
        yield {"fam": "paircode", "i": i}
    for i in range(6 if tier == "quick" else 48):
        yield {"fam": "huge_labels", "i": i}
    for i in range(18 if tier == "quick" else 180):
        yield {"fam": "bigvol", "i": i}
    for i in range(12 if tier == "quick" else 120):
        yield {"fam": "manycomp", "i": i}


def setup(ctx):
    monitors.install(ctx, set())


def mirror_rvd(vals):
    out = []
    for v in vals:
        fr = Fraction(v).limit_denominator(10**6)
        out.append(ref.f(-fr / (1 + fr)))
    return out


def judge(ctx, pred, refa, cfg):
    a = meta.run(cfg, pred, refa)
    b = meta.run(cfg, refa, pred)
    ctx.count("evaluations", 2)
    det = {"pred": pred, "ref": refa, "cfg": cfg}
    feats = {"input": cfg["input"], "metric": (cfg.get("matcher") or {}).get("metric")}
    if "ERR" in a or "ERR" in b:
        if ("ERR" in a) != ("ERR" in b):
            ctx.viol("only_one_direction_raises", dict(det, forward=a.get("ERR"), swapped=b.get("ERR")), features=feats)
        return None
    ctx.count("C11.judged")

    def bad(kind, **extra):
        ctx.viol(kind, dict(det, **extra), features=dict(feats, kind=kind))

    if a["tp"] != b["tp"]:
        return bad("tp_differs", forward=a["tp"], swapped=b["tp"])
    if a["fp"] != b["fn"] or a["fn"] != b["fp"] or a["num_pred_instances"] != b["num_ref_instances"] or a["num_ref_instances"] != b["num_pred_instances"]:
        return bad("fp_fn_not_exchanged", forward={k: a[k] for k in ("fp", "fn")}, swapped={k: b[k] for k in ("fp", "fn")})
    for m in ("IOU", "DSC", "ASSD"):
        tol = dict(rel=1e-9, abs_=1e-9) if m == "ASSD" else dict(abs_=1e-12)
        if not pan.same_list(a["lists"][m], b["lists"][m], **tol):
            return bad("per_instance_values_differ", metric=m, forward=a["lists"][m], swapped=b["lists"][m])
    for k in ("sq", "sq_std", "rq", "pq", "sq_dsc", "sq_dsc_std", "pq_dsc", "sq_assd", "sq_assd_std"):
        tol = dict(rel=1e-9, abs_=1e-9)
        if not pan.same(a[k], b[k], **tol):
            return bad("aggregate_differs", key=k, forward=a[k], swapped=b[k])
    ra, rb = a["lists"]["RVD"], b["lists"]["RVD"]
    ctx.count("C11.rvd_values_judged", len(ra))
    if not pan.same_list(mirror_rvd(ra), rb, abs_=1e-12):
        return bad("rvd_not_mirrored", forward=ra, swapped=rb, expected=mirror_rvd(ra))
    return a


def run(case, ctx):
    fam, i = case["fam"], case["i"]
    r = gen.rng(ctx.seed, "c11", fam, i)
    if fam == "huge_labels":
        r = gen.rng(ctx.seed, "c11huge", i)
        dtype = [np.uint32, np.uint64][i % 2]
        base = [2**24, 2**25][(i // 2) % 2]
        pool = [int(x) for x in r.choice(np.arange(base, base + 2**20), size=4, replace=False)]
        if i % 3 == 0:
            # prediction and reference use the same few values, in another order (renaming chains: a -> b, b -> c)
            pl, rl = [pool[1], pool[2], pool[0]], [pool[0], pool[1], pool[2]]
            ctx.count("f:family.huge_labels_shared_between_sides")
        else:
            pl = pool[:3]
            rl = [int(x) for x in r.choice(np.arange(base, base + 2**20), size=3, replace=False)]
        refa = np.zeros(30, dtype=dtype)
        pred = np.zeros(30, dtype=dtype)
        for k in range(3):  # overlaps of different quality, so that score order and label order disagree
            refa[10 * k : 10 * k + 8] = rl[k]
            pred[10 * k + k + 1 : 10 * k + 8] = pl[k]
        cfg = {"input": "UNMATCHED_INSTANCE", "matcher": {"kind": "naive", "metric": "IOU", "thr": 0.3, "m2o": False}}
        ctx.count("f:family.labels_beyond_2^24")
        a = judge(ctx, pred, refa, cfg)
        if a:
            ctx.nontrivial(gen.arr_key(pred, refa), cfg)
        return
    if fam == "manycomp":
        # semantic maps with about 256 components on one side only (or on both): the dtype that holds the component
        # numbers must come from both sides
        n_ref = int([3, 256, 255, 300, 257, 2][i % 6])
        n_pred = int([256, 3, 300, 255, 2, 258][i % 6])
        n = 2 * max(n_ref, n_pred) + 4
        refa = np.zeros(n, dtype=[np.uint8, np.int32][i % 2])
        pred = np.zeros_like(refa)
        refa[1 : 2 * n_ref : 2] = 1
        pred[1 : 2 * n_pred : 2] = 1
        if i % 3 == 2:
            refa, pred = np.stack([refa, refa * 0]), np.stack([pred, pred * 0])
        cfg = {"input": "SEMANTIC", "backend": [None, "cc3d", "scipy"][(i // 2) % 3], "matcher": {"kind": "naive", "metric": "IOU", "thr": 0.5, "m2o": False}}
        ctx.count("f:family.many_components_one_side")
        a = judge(ctx, pred, refa, cfg)
        if a:
            ctx.nontrivial(gen.arr_key(pred, refa), cfg)
            if a["num_ref_instances"] != n_ref or a["num_pred_instances"] != n_pred:
                ctx.viol("fp_fn_not_exchanged", {"cfg": cfg, "expected_instances": [n_ref, n_pred], "reported": [a["num_ref_instances"], a["num_pred_instances"]]}, features={"input": "SEMANTIC", "kind": "many_components"})
        return
    if fam == "bigvol":
        pred, refa = gen.big_volume_pair(ctx.seed, i, ctx.tier)
        it = ["UNMATCHED_INSTANCE", "SEMANTIC"][i % 2]
        if it == "SEMANTIC":
            pred, refa = gen.to_semantic(pred, r, 2), gen.to_semantic(refa, r, 2)
        cfg = {"input": it, "backend": [None, "cc3d", "scipy"][i % 3], "matcher": {"kind": "naive", "metric": ["IOU", "DSC"][(i // 2) % 2], "thr": [0.3, 0.4][(i // 4) % 2], "m2o": False}}
        ctx.count("f:family.big_sparse_volume")
        a = judge(ctx, pred, refa, cfg)
        if a:
            ctx.nontrivial(gen.arr_key(pred, refa), cfg)
        return
    if fam == "paircode":
        pred, refa = gen.paircode_boundary_pair(ctx.seed, i)
        cfg = {"input": "UNMATCHED_INSTANCE", "matcher": {"kind": "naive", "metric": ["IOU", "DSC"][i % 2], "thr": 0.5, "m2o": False}}
        ctx.count("f:family.paircode_boundary")
        a = judge(ctx, pred, refa, cfg)
        if a:
            ctx.nontrivial(gen.arr_key(pred, refa), cfg)
        return
    if fam in TINY:
        shape, alpha, _ = TINY[fam]
        pred, refa = gen.tiny_pair(shape, alpha, i)
        its = ["UNMATCHED_INSTANCE", "MATCHED_INSTANCE", "SEMANTIC"]
    else:
        pred, refa, f = gen.random_pair(ctx.seed, 40000 + i, dtype=[np.uint8, np.uint16, np.uint32][i % 3])
        ctx.count("f:family." + f)
        its = [["UNMATCHED_INSTANCE", "SEMANTIC", "MATCHED_INSTANCE"][i % 3]]
        if its[0] == "MATCHED_INSTANCE":
            pred = gen.make_matched(pred, refa, r)
        elif its[0] == "SEMANTIC":
            pred, refa = gen.to_semantic(pred, r, 2), gen.to_semantic(refa, r, 2)
            if i % 4 == 1:
                # class labels that only one side uses, beyond 255 / 65535 (dtype chosen from both maps)
                big = int(r.choice([256, 300, 65536, 70000]))
                pred, refa = pred.astype(np.int32), refa.astype(np.int32)
                (pred if i % 8 == 1 else refa)[(pred if i % 8 == 1 else refa) == 2] = big
                ctx.count("f:C11.one_sided_large_semantic_label")
    ndim = refa.ndim
    for it in its:
        backend = [None, "cc3d", "scipy"][i % 3]
        if it == "MATCHED_INSTANCE":
            confs = [None]
        else:
            metric = ["IOU", "DSC", "ASSD"][(i // 3) % 3]
            pi, ri = ref.input_instances(pred, refa, it, backend)
            table = ref.score_table(metric, ri, pi, ndim)
            dec = ref.METRIC_DECREASING[metric]
            ths = gen.threshold_classes(table.values(), dec, exact=metric != "ASSD", lo=0.0, hi=None if dec else 1.0)
            confs = [{"kind": "naive", "metric": metric, "thr": t, "m2o": False} for t in ths]
        for mc in confs:
            cfg = {"input": it, "backend": backend, "matcher": mc}
            if not meta.unique_matching(pred, refa, cfg):
                ctx.count("skipped_matching_not_unique")
                continue
            a = judge(ctx, pred, refa, cfg)
            if a and isinstance(a["tp"], int) and a["tp"] > 0 and not np.array_equal(pred, refa):
                ctx.nontrivial(gen.arr_key(pred, refa), cfg)
    if i % 500 == 0:
        ctx.sample({"family": fam, "pred": pred if pred.size < 40 else "(%s)" % (pred.shape,), "ref": refa if refa.size < 40 else "(%s)" % (refa.shape,)})
