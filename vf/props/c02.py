"""C02 -- result bookkeeping: tp/fp/fn, per-TP lists and sq/rq/pq are mutually consistent."""

from __future__ import annotations

import numpy as np

from vf import gen, monitors, pan, ref

ID = "C02"
LEVEL = "exploration"
TECHNIQUE = "runtime monitoring: invariant monitor on every PanopticaResult leaving the real panoptic_evaluate (identities recomputed from the lists and from independently counted instances) plus directly constructed results"
RULE = (
    "cases = (label-map pair, input type, matcher in {threshold, threshold many-to-one, merge}, matching metric/threshold "
    "class, decision metric in {none, IoU, Dice, ASSD}, decision-threshold class); workload = enumerated tiny maps + "
    "generated families tuned so that matched instances fail the decision threshold, plus directly constructed results over "
    "random (num_ref, num_pred, tp, lists). Non-trivial = tp > 0 or an instance rejected by the decision threshold; "
    "distinct = hash of (arrays, configuration) or of the constructed tuple."
)
ASSUMPTIONS = [
    "instances are counted independently of the library: distinct non-zero labels for instance input, reference BFS components for semantic input; predictions merged by a many-to-one / merge matcher count once",
]
MINIMUM = {"C02.decision_values_judged": 500, "f:C02.boundary": 50, "C02.checked": 3000, "C02.lists_judged": 2000, "f:C02.decision_rejected": 200, "C02.direct_checked": 300}
BUDGET_S = {"quick": 1200, "thorough": 900}

TINY = {"t1d4": ((4,), 3, 5), "t2x2": ((2, 2), 3, 5)}


def cases(tier, seed):
    for name, (shape, alpha, stride) in TINY.items():
        n = gen.tiny_count(shape, alpha)
        step = 1 if tier == "thorough" else stride
        for i in range(seed % step, n, step):
            yield {"fam": name, "i": i}
    for i in range(1500 if tier == "quick" else 40000):
        yield {"fam": "rand", "i": i}
    yield {"fam": "readme", "i": 0}
    for i in range(120 if tier == "quick" else 2000):
        yield {"fam": "boundary", "i": i}
    for i in range(600 if tier == "quick" else 20000):
        yield {"fam": "direct", "i": i}


def setup(ctx):
    monitors.install(ctx, {"C02"})


MATCHERS = [{"kind": "naive", "m2o": False}, {"kind": "naive", "m2o": True}, {"kind": "merge"}]


def evaluate(ctx, pred, refa, cfg, key):
    ctx.count("evaluations")
    try:
        out = pan.evaluate(pan.make_evaluator(cfg), pred, refa)
    except Exception as e:  # noqa: BLE001
        ctx.viol("evaluate_raised", {"exc": repr(e)[:300], "pred": pred, "ref": refa, "cfg": cfg}, features={"exc": type(e).__name__, "input": cfg["input"]})
        return None
    res = out[next(iter(out))][0]
    r = pan.read_result(res, cfg.get("metrics", pan.DEFAULT_METRICS))
    if isinstance(r["tp"], int) and r["tp"] > 0:
        ctx.nontrivial(key, cfg)
    return r


def run_pair(ctx, pred, refa, it, rot, fam):
    ndim = refa.ndim
    key = gen.arr_key(pred, refa)
    backend = [None, "cc3d", "scipy"][rot % 3]
    if it == "MATCHED_INSTANCE":
        mconfs = [None]
    else:
        pi, ri = ref.input_instances(pred, refa, it, backend)
        mconfs = []
        for mk in MATCHERS:
            metric = ["IOU", "DSC", "ASSD"][(rot + len(mconfs)) % 3]
            table = ref.score_table(metric, ri, pi, ndim)
            dec = ref.METRIC_DECREASING[metric]
            ths = gen.threshold_classes(table.values(), dec, exact=False, lo=0.0, hi=None if dec else 1.0)
            # loosest and a middle class: matched instances of varying quality
            for thr in {ths[-1] if dec else ths[0], ths[len(ths) // 2]}:
                mconfs.append(dict(mk, metric=metric, thr=thr))
    for mc in mconfs:
        cfg = {"input": it, "backend": backend, "matcher": mc}
        if ndim >= 2 and rot % 5 == 0:
            cfg["metrics"] = ["DSC", "IOU", "ASSD", "RVD", "clDSC"]
            ctx.count("f:C02.cldsc_as_instance_metric")
        base = evaluate(ctx, pred, refa, cfg, key)
        if not base or not isinstance(base["tp"], int) or base["tp"] == 0:
            continue
        for dm in ("IOU", "DSC", "ASSD"):
            vals = base["lists"].get(dm)
            if not isinstance(vals, list):
                continue
            dec = ref.METRIC_DECREASING[dm]
            for dt in gen.threshold_classes(vals, dec, exact=True, lo=0.0, hi=None if dec else 1.0):
                r2 = evaluate(ctx, pred, refa, dict(cfg, dm=dm, dt=dt), key)
                if r2 and isinstance(r2["tp"], int) and r2["tp"] < base["tp"]:
                    ctx.count("f:C02.decision_rejected")
                    ctx.nontrivial(key, cfg, dm, dt)
    ctx.sample({"family": fam, "input": it, "pred": pred, "ref": refa}) if pred.size <= 36 else None


def direct(ctx, i):
    """directly constructed results"""
    from panoptica.panoptica_result import PanopticaResult

    r = gen.rng(ctx.seed, "direct", i)
    num_ref = int(r.integers(0, 12))
    num_pred = int(r.integers(0, 12))
    tp = int(r.integers(0, min(num_ref, num_pred) + 1))
    if i % 7 == 0:
        tp = 0
    ious = [int(r.integers(1, 41)) / 40 for _ in range(tp)]
    lists = {
        "IOU": ious,
        "DSC": [2 * x / (1 + x) for x in ious],
        "ASSD": [float(r.random() * 5) for _ in range(tp)],
        "RVD": [float(r.random() * 2 - 1) for _ in range(tp)],
    }
    metrics = [m for m in ("IOU", "DSC", "ASSD", "RVD") if m in ("IOU", "DSC") or r.random() < 0.7]
    with pan.quiet():
        res = PanopticaResult(
            reference_arr=None, prediction_arr=None, num_pred_instances=num_pred, num_ref_instances=num_ref, tp=tp,
            list_metrics={pan.METRIC[m]: list(lists[m]) for m in metrics},
            edge_case_handler=pan.EdgeCaseHandler(),
        )
    ctx.count("evaluations")
    ctx.count("C02.direct_checked")
    monitors.check_result_identities(res, num_pred, num_ref, metrics, {"input": "direct"}, {"num_ref": num_ref, "num_pred": num_pred, "tp": tp, "lists": lists})
    if tp > 0:
        ctx.nontrivial("direct", num_ref, num_pred, tp, tuple(ious))


def run(case, ctx):
    fam, i = case["fam"], case["i"]
    if fam == "direct":
        direct(ctx, i)
        return
    if fam == "readme":
        # the README's minimal configuration: matched input, decision_metric IoU, threshold 0.5, one instance below it
        pred = np.array([1, 1, 1, 0, 2, 2], dtype=np.uint8)
        refa = np.array([1, 0, 0, 0, 2, 2], dtype=np.uint8)
        r2 = evaluate(ctx, pred, refa, {"input": "MATCHED_INSTANCE", "matcher": None, "dm": "IOU", "dt": 0.5}, b"readme")
        if r2 and r2["tp"] == 1:
            ctx.count("f:C02.decision_rejected")
        return
    if fam == "boundary":
        # label values / instance counts at the 255|256 and 65535|65536 boundaries (dtype choice, fresh labels)
        from vf.props import c04

        if i % 3 < 2:
            pred, refa = c04.boundary_pair(ctx.seed, i)
            cfg = {"input": "UNMATCHED_INSTANCE", "matcher": {"kind": ["naive", "merge"][i % 2], "metric": "IOU", "thr": 0.5, "m2o": bool(i % 4 == 0)}}
        else:
            n_ref = [255, 256, 257, 254][i % 4]
            n_pred = [3, 256, 255, 257][(i // 4) % 4]
            refa = np.zeros(2 * max(n_ref, n_pred) + 2, dtype=[np.uint8, np.int32, np.uint16][i % 3])
            pred = np.zeros_like(refa)
            refa[1 : 2 * n_ref : 2] = 1
            pred[1 : 2 * n_pred : 2] = 1
            cfg = {"input": "SEMANTIC", "backend": [None, "cc3d", "scipy"][i % 3], "matcher": {"kind": "naive", "metric": "IOU", "thr": 0.5}}
        ctx.count("f:C02.boundary")
        evaluate(ctx, pred, refa, cfg, gen.arr_key(pred, refa))
        return
    r = gen.rng(ctx.seed, "c02", i)
    if fam in TINY:
        shape, alpha, _ = TINY[fam]
        pred, refa = gen.tiny_pair(shape, alpha, i)
        its = ["UNMATCHED_INSTANCE", "MATCHED_INSTANCE", "SEMANTIC"]
        it = its[i % 3]
    else:
        pred, refa, f = gen.random_pair(ctx.seed, i, dtype=[np.uint8, np.uint16, np.uint32][i % 3], family=["split", "merge", "shift", "noise", "rects", "blobs", "drop", "touch"][i % 8])
        ctx.count("f:family." + f)
        it = ["UNMATCHED_INSTANCE", "MATCHED_INSTANCE", "SEMANTIC"][(i // 8) % 3]
        if it == "MATCHED_INSTANCE":
            pred = gen.make_matched(pred, refa, r)
        elif it == "SEMANTIC":
            pred, refa = gen.to_semantic(pred, r), gen.to_semantic(refa, r)
    run_pair(ctx, pred, refa, it, i, fam)
