"""C08 -- zero-true-positive cases report exactly what the edge-case handler prescribes."""

from __future__ import annotations

import math

import warnings

import numpy as np

from vf import gen, monitors, pan, ref

ID = "C08"
LEVEL = "exploration"
TECHNIQUE = "runtime monitoring: result monitor on zero-TP executions of the real evaluate() against an independent scenario table, over the completely enumerated per-metric handler space; handler-independence metamorphic runs for tp > 0"
RULE = (
    "cases = (handler configuration, empty-list value, scenario, input type): the per-metric space of 5^4 = 625 scenario-result "
    "settings is enumerated completely (metric j receives setting (i*a_j+b_j) mod 625, so every metric sees all 625 and "
    "neighbouring metrics never share one) x all 5 empty-list values x 4 scenarios (no "
    "instances, empty prediction, empty reference, instances on both sides without a true positive - disjoint, below the "
    "matching threshold, or all rejected by the decision threshold) x 3 input types, on 1-D/2-D/3-D inputs (rotating in quick, all three in thorough). "
    "Non-trivial = every zero-TP execution; distinct = hash of (handler, empty-list value, scenario realisation, input type)."
    " Further families: a long-lived evaluator and evaluators on the library's default handler re-probed while other (also single-metric) handlers are constructed; three of the four scenarios also under np.errstate(all='raise') with warnings as errors; evaluators on the constructor's default metric lists."
)
ASSUMPTIONS = ["handlers define every evaluated metric (the statement's quantifier)", "instance counts are taken from the reference model"]
MINIMUM = {"C08.zero_tp_judged": 5000, "C08.handler_independence_judged": 200}
BUDGET_S = {"quick": 1200, "thorough": 900}
EXHAUSTIVE = {"quick": True, "thorough": True}

RES = ["INF", "NAN", "ZERO", "ONE", "NONE"]
METRICS = ["DSC", "IOU", "ASSD", "RVD", "clDSC"]
A = {"DSC": 1, "IOU": 2, "ASSD": 3, "RVD": 4, "clDSC": 6}
B = {"DSC": 0, "IOU": 101, "ASSD": 257, "RVD": 419, "clDSC": 523}
NAMES = {"IOU": "sq", "DSC": "sq_dsc", "ASSD": "sq_assd", "RVD": "sq_rvd", "clDSC": "sq_cldsc"}


def setting(idx):
    out = []
    for _ in range(4):
        idx, d = divmod(idx, 5)
        out.append(RES[d])
    return tuple(out)


def handler_for(i):
    return {m: setting((i * A[m] + B[m]) % 625) for m in METRICS}


def cases(tier, seed):
    for i in range(625):
        for s in RES:
            if tier == "quick":
                yield {"fam": "handler", "i": i, "std": s, "ndim": 1 + (i + RES.index(s) + seed) % 3}
            else:
                for nd in (1, 2, 3):
                    yield {"fam": "handler", "i": i, "std": s, "ndim": nd}
    for i in range(300 if tier == "quick" else 6000):
        yield {"fam": "independence", "i": i}


def setup(ctx):
    monitors.install(ctx, set())
    # other evaluators exist in the same process (a decision metric outside the default instance metrics)
    try:
        pan.Panoptica_Evaluator(expected_input=pan.InputType.MATCHED_INSTANCE, decision_metric=pan.Metric.clDSC, decision_threshold=0.5)
    except Exception:  # noqa: BLE001
        pass


def scenario_inputs(i, it, ndim):
    """(name, scenario index, pred, ref, extra cfg) realising each scenario for input type it"""
    shape = {1: (12,), 2: (4, 12), 3: (2, 3, 12)}[ndim]
    dtype = np.uint8 if it != "SEMANTIC" or i % 2 else np.int32
    z = np.zeros(shape, dtype=dtype)

    def put(arr, lo, hi, lab):
        idx = [slice(None)] * ndim
        idx[-1] = slice(lo, hi)
        arr[tuple(idx)] = lab

    a = z.copy()
    put(a, 0, 2, 1)
    if it != "SEMANTIC":
        put(a, 3, 4, 2)
    else:
        put(a, 3, 4, 1)
    b = z.copy()
    put(b, shape[-1] - 2, shape[-1], 3 if it == "MATCHED_INSTANCE" else 1)
    out = [
        ("no_instances", 0, z.copy(), z.copy(), {}),
        ("empty_pred", 1, z.copy(), a.copy(), {}),
        ("empty_ref", 2, a.copy(), z.copy(), {}),
        ("disjoint", 3, b.copy(), a.copy(), {}),
    ]
    # overlapping but without a true positive
    c = z.copy()
    put(c, 1, 6, 1)  # overlaps instance 1 of a (voxel 1) with IoU 1/6
    if it == "MATCHED_INSTANCE":
        out.append(("decision_rejects_all", 3, c.copy(), a.copy(), {"dm": "IOU", "dt": 0.9}))
    else:
        out.append(("below_matching_threshold", 3, c.copy(), a.copy(), {"thr": 0.9}))
        out.append(("decision_rejects_all", 3, c.copy(), a.copy(), {"thr": 0.01, "dm": "DSC", "dt": 0.99}))
    return out


def make_handler_variant(h, std, variant):
    """variant 0: all four results explicit; 1: results equal to the 'normal' one passed through default_result"""
    if variant == 0:
        return pan.make_handler(h, std)
    d = {}
    for m, v in h.items():
        default = v[3]
        kw = dict(default_result=pan.EDGE[default])
        for name, val in zip(("no_instances_result", "empty_prediction_result", "empty_reference_result", "normal"), v):
            if val != default:
                kw[name] = pan.EDGE[val]
        d[pan.METRIC[m]] = pan.MetricZeroTPEdgeCaseHandling(**kw)
    return pan.EdgeCaseHandler(listmetric_zeroTP_handling=d, empty_list_std=pan.EDGE[std])


def persistence(ctx):
    """a long-lived evaluator keeps reporting its own handler's values while newer, different handlers are built"""
    z = np.zeros((4, 6), np.uint8)
    a = z.copy()
    a[1:3, 1:4] = 1
    probes = [("empty_pred", 1, z, a), ("empty_ref", 2, a, z), ("no_instances", 0, z, z)]
    if getattr(ctx, "_persist8", None) is None:
        h = handler_for(317)
        metrics = ["DSC", "IOU", "ASSD", "RVD"]
        ev = pan.make_evaluator({"input": "MATCHED_INSTANCE", "matcher": None, "metrics": metrics, "global": [], "handler": {m: h[m] for m in metrics}, "std": "ONE"})
        ctx._persist8 = (ev, h, metrics)
        return
    ev, h, metrics = ctx._persist8
    for name, sc, p, q in probes:
        with np.errstate(all="ignore"):
            out = pan.evaluate(ev, p.copy(), q.copy())
        r = pan.read_result(out[next(iter(out))][0], metrics)
        ctx.count("C08.zero_tp_judged")
        ctx.count("C08.persistent_evaluator_rechecks")
        for m in metrics:
            want = ref.EDGE_VALUE[h[m][sc]]
            if not pan.same(r[NAMES[m]], want):
                ctx.viol("aggregate_not_handler_value", {"scenario": name, "handler": h, "metric": m, "got": r[NAMES[m]], "expected": want, "note": "long-lived evaluator, other handlers were constructed since"},
                         features={"scenario": name, "input": "MATCHED_INSTANCE", "metric": m, "long_lived": True})
                return


def library_default(ctx):
    """an evaluator built without a handler reports the documented default values, whatever handlers (complete or for
    some metrics only) have been constructed in the process before"""
    z = np.zeros((4, 6), np.uint8)
    a = z.copy()
    a[1:3, 1:4] = 1
    metrics = ["DSC", "IOU", "ASSD", "RVD"]
    ev = pan.make_evaluator({"input": "MATCHED_INSTANCE", "matcher": None, "metrics": metrics, "global": [], "handler": None})
    for name, sc, p, q in (("empty_pred", 1, z, a), ("empty_ref", 2, a, z), ("no_instances", 0, z, z)):
        with np.errstate(all="ignore"):
            out = pan.evaluate(ev, p.copy(), q.copy())
        r = pan.read_result(out[next(iter(out))][0], metrics)
        ctx.count("C08.zero_tp_judged")
        ctx.count("C08.library_default_rechecks")
        for m in metrics:
            want = ref.EDGE_VALUE[ref.DEFAULT_HANDLER[m][sc]]
            if not pan.same(r[NAMES[m]], want):
                ctx.viol("aggregate_not_handler_value", {"scenario": name, "handler": "library default", "metric": m, "got": r[NAMES[m]], "expected": want},
                         features={"scenario": name, "input": "MATCHED_INSTANCE", "metric": m, "default_handler": True})
                return


def run(case, ctx):
    fam, i = case["fam"], case["i"]
    if getattr(ctx, "_persist8", None) is None or ctx.cases_run % 25 == 0:
        persistence(ctx)
        library_default(ctx)
    if fam == "independence":
        return independence(ctx, i)
    std = case["std"]
    h = handler_for(i)
    for it in ("SEMANTIC", "UNMATCHED_INSTANCE", "MATCHED_INSTANCE"):
        for name, sc, pred, refa, extra in scenario_inputs(i, it, case.get("ndim", 1 + i % 3)):
            metrics = [m for m in METRICS if m != "clDSC" or refa.ndim >= 2]
            if name == "decision_rejects_all" and (i + RES.index(std)) % 2:
                metrics = [extra["dm"]]  # the decision metric is the only evaluated instance metric
                ctx.count("f:decision_metric_is_only_metric")
            cfg = {
                "input": it, "backend": [None, "cc3d", "scipy"][i % 3], "metrics": metrics,
                "matcher": None if it == "MATCHED_INSTANCE" else {"kind": ["naive", "merge"][i % 2], "metric": "IOU", "thr": extra.get("thr", 0.5)},
                "dm": extra.get("dm"), "dt": extra.get("dt"),
            }
            default_lists = i % 4 == 0 and metrics != [extra.get("dm")]
            if default_lists:  # the constructor's own default instance metrics (DSC, IOU, ASSD, RVD); handler defines exactly these
                metrics = ["DSC", "IOU", "ASSD", "RVD"]
                ctx.count("f:default_metric_lists")
            ev = pan.Panoptica_Evaluator(
                expected_input=pan.INPUT[it],
                instance_approximator=pan.ConnectedComponentsInstanceApproximator(pan.BACKEND[cfg["backend"]]) if it == "SEMANTIC" else None,
                instance_matcher=pan.make_matcher(cfg["matcher"]),
                edge_case_handler=make_handler_variant({m: h[m] for m in metrics} if default_lists else h, std, i % 2),
                **({} if default_lists else {"instance_metrics": [pan.METRIC[m] for m in metrics]}),
                global_metrics=[],
                decision_metric=pan.METRIC[cfg["dm"]] if cfg["dm"] else None,
                decision_threshold=cfg["dt"],
            )
            ctx.count("evaluations")
            det = {"scenario": name, "handler": h, "std": std, "pred": pred, "ref": refa, "cfg": cfg}
            feats = {"scenario": name, "input": it}
            # every fifth case runs in a process that treats floating point errors and warnings as errors
            # (np.seterr(all="raise"), python -W error): a zero-TP evaluation must complete there as well
            strict = (i + RES.index(std)) % 5 == 3 and name != "decision_rejects_all"  # (there, metrics of real pairs are computed: 0/0 in clDice is the library's documented NaN)
            try:
                with np.errstate(all="raise" if strict else "ignore"), warnings.catch_warnings():
                    if strict:
                        warnings.simplefilter("error")
                        ctx.count("C08.strict_floating_point_and_warning_settings")
                    out = pan.evaluate(ev, pred, refa)
                    res = out[next(iter(out))][0]
                    r = pan.read_result(res, metrics)
            except Exception as e:  # noqa: BLE001
                ctx.viol("evaluate_raised", dict(det, exc=repr(e)[:300], strict_settings=strict), features=dict(feats, exc=type(e).__name__, strict_settings=strict))
                continue
            pi, ri = ref.input_instances(pred, refa, it, cfg["backend"])
            n_pred, n_ref = len(pi), len(ri)
            assert ref.scenario(n_pred, n_ref) == sc
            ctx.count("C08.zero_tp_judged")
            ctx.count("f:scenario." + name)
            ctx.nontrivial(i, std, name, it, refa.ndim)
            if r["tp"] != 0:
                ctx.viol("tp_not_zero", dict(det, result=r), features=feats)
                continue
            if r["fp"] != n_pred or r["fn"] != n_ref:
                ctx.viol("fp_fn_not_instance_counts", dict(det, fp=r["fp"], fn=r["fn"], n_pred=n_pred, n_ref=n_ref), features=feats)
            for m in metrics:
                want = ref.EDGE_VALUE[h[m][sc]]
                got = r[NAMES[m]]
                if not pan.same(got, want):
                    ctx.viol("aggregate_not_handler_value", dict(det, metric=m, got=got, expected=want), features=dict(feats, metric=m))
                    break
                got_std = r[NAMES[m] + "_std"]
                if not pan.same(got_std, ref.EDGE_VALUE[std]):
                    ctx.viol("std_not_empty_list_value", dict(det, metric=m, got=got_std, expected=std), features=dict(feats, metric=m))
                    break
            if i % 150 == 0 and it == "SEMANTIC":
                ctx.sample({"handler": h, "std": std, "scenario": name, "input": it, "sq_dsc": r["sq_dsc"], "sq_assd": r["sq_assd"]})


def independence(ctx, i):
    """with at least one true positive the handler has no influence"""
    r = gen.rng(ctx.seed, "c08ind", i)
    pred, refa, f = gen.random_pair(ctx.seed, 7000 + i, dtype=np.uint8, family=["shift", "split", "rects", "noise"][i % 4])
    it = ["UNMATCHED_INSTANCE", "SEMANTIC", "MATCHED_INSTANCE"][i % 3]
    if it == "MATCHED_INSTANCE":
        pred = gen.make_matched(pred, refa, r)
    metrics = ["DSC", "IOU", "ASSD", "RVD"]
    cfg = {"input": it, "matcher": None if it == "MATCHED_INSTANCE" else {"kind": "naive", "metric": "IOU", "thr": 0.2}, "metrics": metrics}
    results = []
    for k in range(2):
        j = int(r.integers(0, 625))
        h = {m: v for m, v in handler_for(j).items() if m in metrics}
        std = RES[int(r.integers(0, 5))]
        ctx.count("evaluations")
        try:
            out = pan.evaluate(pan.make_evaluator(dict(cfg, handler=h, std=std)), pred, refa)
        except Exception as e:  # noqa: BLE001
            ctx.viol("evaluate_raised", {"exc": repr(e)[:300], "pred": pred, "ref": refa, "handler": h}, features={"exc": type(e).__name__})
            return
        results.append(pan.read_result(out[next(iter(out))][0], metrics))
    a, b = results
    if not isinstance(a["tp"], int) or a["tp"] == 0:
        ctx.count("independence.skipped_zero_tp")
        return
    ctx.count("C08.handler_independence_judged")
    ctx.nontrivial("ind", gen.arr_key(pred, refa), it)
    for k in a:
        if k == "lists":
            same = all(pan.same_list(a["lists"][m], b["lists"][m]) for m in metrics)
        else:
            same = pan.same(a[k], b[k])
        if not same:
            ctx.viol("handler_influences_result_with_tp", {"key": k, "a": a[k], "b": b[k], "pred": pred, "ref": refa}, features={"key": k})
            break
