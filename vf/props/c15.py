"""C15 -- evaluation is pure: no input mutation, no history, option or worker dependence."""

from __future__ import annotations

import hashlib
import inspect
import json
import os
import subprocess
import sys
import tempfile

import numpy as np

from vf import gen, harness, meta, monitors, pan

ID = "C15"
LEVEL = "exploration"
TECHNIQUE = "runtime monitoring: purity monitors (array hashes, defaults/key/config snapshots) around every real evaluate() in random call histories, history differential against pristine results from separate fresh processes, serial vs real multiprocessing pool"
RULE = (
    "cases = random histories of 10..40 steps over 2..4 shared evaluators (evaluate with a random input and a random "
    "combination of result_all / save_group_times / log_times / verbose per call and per constructor, construct further "
    "evaluators and aggregators with log_times True/False, aggregator.evaluate, read resulting_metric_keys, save_to_config), "
    "plus the complete per-call option product on a fixed input, plus evaluations through the real multiprocessing pool. "
    "Every evaluate result is compared with the pristine result of the same (configuration, input) computed once on a new "
    "evaluator in two separate fresh processes (opposite orders). Non-trivial = an evaluate step whose result has tp > 0 "
    "preceded by at least one other step; distinct = hash of (history prefix, configuration, input, options)."
    ' Further families: fork after a real-pool evaluation and evaluation inside a daemonic worker, both in fresh interpreters that never saw the serial stand-in; inputs in non-native byte order; keys and saved configuration compared with a never-used twin evaluator.'
)
ASSUMPTIONS = [
    "computation_time is excluded from the comparison (timing); everything else a result reports is compared",
    "pristine results come from fresh interpreter processes started by the shard",
]
MINIMUM = {"C15.evaluate_steps_judged": 400, "C15.input_hashes_checked": 400, "C15.real_pool_judged": 8, "C15.option_combinations_judged": 100, "C15.snapshots_checked": 400}
BUDGET_S = {"quick": 1200, "thorough": 900}
SHARDS = {"quick": 16, "thorough": 900}

CONFIGS = [
    {"input": "UNMATCHED_INSTANCE", "matcher": {"kind": "naive", "metric": "IOU", "thr": 0.5}},
    {"input": "UNMATCHED_INSTANCE", "matcher": {"kind": "merge", "metric": "DSC", "thr": 0.3}, "dm": "IOU", "dt": 0.4, "global": ["DSC", "IOU"]},
    {"input": "SEMANTIC", "backend": None, "matcher": {"kind": "naive", "metric": "ASSD", "thr": 2.0, "m2o": True}},
    {"input": "SEMANTIC", "backend": "cc3d", "matcher": {"kind": "naive", "metric": "DSC", "thr": 0.5},
     "groups": {"a": {"labels": [1], "kind": "plain"}, "b": {"labels": [2, 3], "kind": "merge"}}},
    {"input": "MATCHED_INSTANCE", "matcher": None, "dm": "IOU", "dt": 0.5, "metrics": ["DSC", "IOU", "ASSD", "RVD"]},
    {"input": "MATCHED_INSTANCE", "matcher": None, "global": ["DSC", "ASSD"]},
    {"input": "UNMATCHED_INSTANCE", "matcher": {"kind": "naive", "metric": "IOU", "thr": 0.5}, "use_default_lists": True},
    {"input": "UNMATCHED_INSTANCE", "matcher": {"kind": "naive", "metric": "IOU", "thr": 0.2}, "global": ["DSC", "IOU", "RVD"], "std": "ZERO",
     "handler": {"DSC": ("ONE", "INF", "NONE", "NAN"), "IOU": ("ZERO", "ONE", "INF", "NONE"), "ASSD": ("INF", "ZERO", "ONE", "NAN"), "RVD": ("ONE", "ZERO", "INF", "ONE"), "clDSC": ("NONE", "NAN", "ONE", "ZERO")}},
    {"input": "SEMANTIC", "backend": "scipy", "matcher": {"kind": "merge", "metric": "IOU", "thr": 0.3}, "global": ["IOU", "ASSD"], "std": "ONE",
     "handler": {"DSC": ("NAN", "ZERO", "ONE", "INF"), "IOU": ("INF", "NONE", "ZERO", "ONE"), "ASSD": ("ZERO", "INF", "ONE", "NAN")}, "metrics": ["DSC", "IOU"]},
    # clDSC is only defined for 2-D / 3-D input: 1-D inputs make evaluate raise (in the pristine run as well)
    {"input": "MATCHED_INSTANCE", "matcher": None, "metrics": ["DSC", "IOU", "clDSC"], "global": ["DSC", "clDSC"]},
    # groups that can cover a whole array (inputs 20-23 have no background): a merge group of all labels, a merge group beside a plain one
    {"input": "UNMATCHED_INSTANCE", "matcher": {"kind": "naive", "metric": "IOU", "thr": 0.5}, "global": ["DSC"],
     "groups": {"all": {"labels": [1, 2, 3], "kind": "merge"}, "two": {"labels": [2], "kind": "plain"}}},
    {"input": "MATCHED_INSTANCE", "matcher": None, "metrics": ["DSC", "IOU"],
     "groups": {"m": {"labels": [2, 3], "kind": "merge"}, "p": {"labels": [1, 2, 3], "kind": "plain"}}},
]


def make_input(seed, k):
    """input k of the pool; valid for every configuration type: returns dict input type -> (pred, ref)"""
    r = gen.rng(seed, "c15in", k)
    pred, refa, f = gen.random_pair(seed, 60000 + k, dtype=np.uint8, max_inst=3, family=["shift", "split", "rects", "noise", "blobs"][k % 5])
    pred = np.minimum(pred, 3)
    refa = np.minimum(refa, 3)
    if k % 6 == 4:
        pred = np.zeros_like(pred)
    elif k % 6 == 5:
        refa = np.zeros_like(refa)
    elif k % 6 == 3:
        # two references compete for one prediction with exactly equal IoU (1/4 == 2/8) but different sizes:
        # the outcome is fixed by the documented candidate order, whatever executes the per-pair work
        refa = np.array([1, 0, 2, 2, 2, 2, 2, 2, 0, 3, 3, 0], dtype=np.uint8)
        pred = np.array([1, 1, 1, 1, 0, 0, 0, 0, 0, 3, 3, 3], dtype=np.uint8)
        if k % 12 == 9:
            pred, refa = refa.copy(), pred.copy()
    if k >= 20:
        # no background voxel at all: every voxel belongs to an instance / class (a region cut from inside an organ); in
        # 20 and 21 only the labels 2 and 3 occur, so one group of the grouped configurations covers a whole array
        shape = [(4, 6), (12,), (2, 3, 4), (5, 5)][k % 4]
        n = int(np.prod(shape))
        lab = {20: [2, 3], 21: [2, 3], 22: [1, 2, 3], 23: [2]}[k]
        refa = np.sort(np.resize(np.array(lab, dtype=np.uint8), n)).reshape(shape)
        pred = refa.copy()
        if k in (20, 22):
            pred = np.roll(pred.reshape(-1), 1 + k % 3).reshape(shape)
        elif k == 21:
            pred = gen.random_pair(seed, 61000 + k, dtype=np.uint8, max_inst=3, family="blobs")[0]
            pred = np.minimum(np.resize(pred.reshape(-1), n).reshape(shape), 3).astype(np.uint8)
    # every fifth input comes in a non-native byte order (as read from big-endian files), which must be left as it is
    udt = np.dtype(np.uint16).newbyteorder(">") if k % 5 == 2 else pred.dtype
    return {
        "UNMATCHED_INSTANCE": (pred.astype(udt), refa.astype(udt)),
        "SEMANTIC": (pred.astype([np.uint8, np.int16][k % 2]), refa.astype([np.uint8, np.int16][k % 2])),
        "MATCHED_INSTANCE": (gen.make_matched(pred, refa, r).astype(udt), refa.astype(udt)),
    }


N_INPUTS = 24


def cases(tier, seed):
    for i in range(48 if tier == "quick" else 1500):
        yield {"fam": "history", "i": i}
    yield {"fam": "options", "i": 0}
    yield {"fam": "options", "i": 1}
    for i in range(24 if tier == "quick" else 400):
        yield {"fam": "realpool", "i": i}
    for i in range(3 if tier == "quick" else 24):
        yield {"fam": "realpool_fork", "i": i}
    for i in range(3 if tier == "quick" else 24):
        yield {"fam": "daemon_worker", "i": i}


# ------------------------------------------------------------------------------------- snapshots
def array_fingerprint(a):
    return (hashlib.blake2b(np.ascontiguousarray(a).tobytes(), digest_size=16).hexdigest(), str(a.dtype), a.shape, a.strides,
            a.flags["WRITEABLE"], a.flags["C_CONTIGUOUS"], a.flags["F_CONTIGUOUS"])


def defaults_snapshot():
    """deep repr of every __defaults__/__kwdefaults__ of functions and methods in panoptica.*"""
    out = {}
    for name, mod in list(sys.modules.items()):
        if not name.startswith("panoptica") or mod is None:
            continue
        for oname, obj in list(vars(mod).items()):
            objs = [(oname, obj)]
            if inspect.isclass(obj) and getattr(obj, "__module__", "").startswith("panoptica"):
                objs = [(oname + "." + k, v) for k, v in vars(obj).items()]
            for n, o in objs:
                fn = getattr(o, "__func__", o)
                fn = getattr(fn, "__wrapped__", fn)
                if inspect.isfunction(fn) and getattr(fn, "__module__", "").startswith("panoptica"):
                    out[name + ":" + n] = (drepr(fn.__defaults__), drepr(fn.__kwdefaults__))
    return out


def drepr(o, depth=0):
    if depth > 4:
        return "..."
    if isinstance(o, dict):
        return "{" + ",".join(f"{drepr(k, depth + 1)}:{drepr(v, depth + 1)}" for k, v in o.items()) + "}"
    if isinstance(o, (list, tuple)):
        return type(o).__name__ + "[" + ",".join(drepr(x, depth + 1) for x in o) + "]"
    if hasattr(o, "__dict__") and type(o).__module__.startswith("panoptica") and not isinstance(o, type):
        return type(o).__name__ + drepr({k: v for k, v in vars(o).items()}, depth + 1)
    return repr(o)


def config_text(ev, tmpdir):
    p = os.path.join(tmpdir, "cfg_%d.yaml" % id(ev))
    with pan.quiet():
        ev.save_to_config(p)
    with open(p) as fh:
        return fh.read()


class Tracked:
    """an evaluator under observation: its advertised keys and saved configuration at birth"""

    def __init__(self, cfg_idx, ctor_opts, tmpdir):
        self.cfg_idx = cfg_idx
        self.ctor_opts = ctor_opts
        self.ev = pan.make_evaluator(dict(CONFIGS[cfg_idx], **ctor_opts))
        self.tmpdir = tmpdir
        # what an identically constructed evaluator that was never used advertises and saves
        fresh = pan.make_evaluator(dict(CONFIGS[cfg_idx], **ctor_opts))
        with pan.quiet():
            self.keys0 = list(fresh.resulting_metric_keys)
        self.text0 = config_text(fresh, tmpdir)

    def check(self, ctx, step, history):
        with pan.quiet():
            keys = list(self.ev.resulting_metric_keys)
        ctx.count("C15.snapshots_checked")
        if keys != self.keys0:
            ctx.viol("resulting_metric_keys_changed_through_use", {"before": self.keys0, "after": keys, "step": step, "history": history[-6:]},
                     features={"what": "metric_keys", "added": sorted(set(keys) - set(self.keys0))})
            self.keys0 = keys
        text = config_text(self.ev, self.tmpdir)
        if text != self.text0:
            ctx.viol("saved_configuration_changed_through_use", {"before": self.text0, "after": text, "step": step, "history": history[-6:]},
                     features={"what": "config"})
            self.text0 = text


OPT_VALUES = {"result_all": [True, False], "save_group_times": [None, True, False], "log_times": [None, True, False], "verbose": [None, True, False]}


def rand_opts(r):
    return {k: v[int(r.integers(0, len(v)))] for k, v in OPT_VALUES.items()}


def call_kwargs(opts):
    kw = {"result_all": opts["result_all"]}
    for k in ("save_group_times", "log_times", "verbose"):
        if opts[k] is not None:
            kw[k] = opts[k]
    return kw


def evaluate_step(ctx, tr, inp_idx, opts, history, pending, via_aggregator=None):
    cfg = CONFIGS[tr.cfg_idx]
    pred, refa = make_input(ctx.seed, inp_idx)[cfg["input"]]
    pred, refa = pred.copy(), refa.copy()
    fp0 = (array_fingerprint(pred), array_fingerprint(refa))
    keep = (pred.copy(), refa.copy())
    ctx.count("evaluations")
    step = {"op": "evaluate", "cfg": tr.cfg_idx, "ctor": tr.ctor_opts, "input": inp_idx, "opts": opts}
    history.append(step)
    try:
        with np.errstate(all="ignore"), pan.quiet():
            out = tr.ev.evaluate(pred, refa, **call_kwargs(opts))
    except Exception as e:  # noqa: BLE001
        # whether raising is right for this (configuration, input) is decided by the pristine run: same error there
        pending.append({"cfg": tr.cfg_idx, "input": inp_idx, "result": {"ERR": type(e).__name__ + ": " + repr(e)[:300]}, "step": step, "history_len": len(history),
                        "opts": {"per_call_save_group_times": opts["save_group_times"], "ctor_save_group_times": tr.ctor_opts.get("save_group_times", False)}})
        return
    ctx.count("C15.input_hashes_checked")
    if (array_fingerprint(pred), array_fingerprint(refa)) != fp0 or not np.array_equal(pred, keep[0]) or not np.array_equal(refa, keep[1]):
        ctx.viol("caller_arrays_modified", {"step": step, "pred_before": keep[0], "pred_after": pred, "ref_before": keep[1], "ref_after": refa}, features={"input": cfg["input"]})
    metrics = cfg.get("metrics", pan.DEFAULT_METRICS)
    res = {g: pan.read_result(v[0], metrics) for g, v in out.items()}
    pending.append({"cfg": tr.cfg_idx, "input": inp_idx, "result": harness.jsonable(res), "step": step, "history_len": len(history)})
    if len(history) > 1 and any(isinstance(v["tp"], int) and v["tp"] > 0 for v in res.values()):
        ctx.nontrivial(json.dumps(history[-3:], sort_keys=True, default=str))


def run_history(ctx, i, pending):
    r = gen.rng(ctx.seed, "c15h", i)
    tmpdir = tempfile.mkdtemp(prefix="c15_", dir=os.environ.get("VERIF_TMP"))
    d0 = defaults_snapshot()
    n_ev = int(r.integers(2, 5))
    trs = []
    history = []
    for _ in range(n_ev):
        ctor = {}
        for k in ("save_group_times", "log_times", "verbose"):
            if r.random() < 0.35:
                ctor[k] = bool(r.random() < 0.5)
        trs.append(Tracked(int(r.integers(0, len(CONFIGS))), ctor, tmpdir))
    aggs = []
    n_steps = int(r.integers(10, 41))
    for s in range(n_steps):
        tr = trs[int(r.integers(0, len(trs)))]
        op = r.choice(["evaluate"] * 6 + ["new_evaluator", "aggregator", "keys", "save", "agg_evaluate"])
        if op == "evaluate":
            evaluate_step(ctx, tr, int(r.integers(0, N_INPUTS)), rand_opts(r), history, pending)
        elif op == "new_evaluator":
            with pan.quiet():
                pan.Panoptica_Evaluator()  # default arguments (shared mutable defaults)
                pan.EdgeCaseHandler()
                try:  # an evaluator on the default metric lists whose decision metric is not among them
                    pan.Panoptica_Evaluator(expected_input=pan.InputType.MATCHED_INSTANCE, decision_metric=pan.Metric.clDSC, decision_threshold=0.5)
                    pan.Panoptica_Evaluator(global_metrics=[pan.Metric.IOU], decision_metric=pan.Metric.DSC, decision_threshold=0.5)
                except Exception:  # noqa: BLE001  (a constructor may refuse the combination)
                    pass
            history.append({"op": "new_default_evaluator"})
        elif op == "aggregator":
            lt = bool(r.random() < 0.5)
            path = os.path.join(tmpdir, "agg_%d_%d.tsv" % (i, s))
            try:
                with pan.quiet():
                    aggs.append((panoptica_aggregator()(tr.ev, path, log_times=lt), tr))
                history.append({"op": "new_aggregator", "cfg": tr.cfg_idx, "log_times": lt})
            except Exception as e:  # noqa: BLE001
                ctx.viol("aggregator_construction_raised", {"exc": repr(e)[:300], "history": history[-6:]}, features={"exc": type(e).__name__})
        elif op == "keys":
            with pan.quiet():
                _ = tr.ev.resulting_metric_keys
            history.append({"op": "read_keys", "cfg": tr.cfg_idx})
        elif op == "save":
            config_text(tr.ev, tmpdir)
            history.append({"op": "save_to_config", "cfg": tr.cfg_idx})
        elif op == "agg_evaluate" and aggs:
            agg, atr = aggs[int(r.integers(0, len(aggs)))]
            cfg = CONFIGS[atr.cfg_idx]
            k = int(r.integers(0, N_INPUTS))
            pred, refa = make_input(ctx.seed, k)[cfg["input"]]
            pred, refa = pred.copy(), refa.copy()
            fp0 = (array_fingerprint(pred), array_fingerprint(refa))
            try:
                with np.errstate(all="ignore"), pan.quiet():
                    agg.evaluate(pred, refa, "subj_%d_%d" % (s, k))
                ctx.count("C15.input_hashes_checked")
                if (array_fingerprint(pred), array_fingerprint(refa)) != fp0:
                    ctx.viol("caller_arrays_modified", {"via": "aggregator", "history": history[-6:]}, features={"input": cfg["input"], "via": "aggregator"})
            except Exception as e:  # noqa: BLE001
                # an input the evaluation itself rejects (e.g. clDSC on 1-D arrays) is rejected through the aggregator
                # as well: a freshly built evaluator must raise the same kind of error for it
                try:
                    with np.errstate(all="ignore"), pan.quiet():
                        pan.evaluate(pan.make_evaluator(cfg), pred.copy(), refa.copy())
                    same = False
                except Exception as e2:  # noqa: BLE001
                    same = type(e2) is type(e)
                if same:
                    ctx.count("C15.aggregator_rejected_an_input_the_evaluator_rejects")
                else:
                    ctx.viol("aggregator_evaluate_raised", {"exc": repr(e)[:300], "history": history[-6:]}, features={"exc": type(e).__name__})
            history.append({"op": "aggregator_evaluate", "cfg": atr.cfg_idx, "input": k})
        for t in trs:
            t.check(ctx, s, history)
    d1 = defaults_snapshot()
    if d0 != d1:
        changed = sorted(k for k in d1 if d0.get(k) != d1[k])
        ctx.viol("process_global_defaults_mutated", {"changed": changed[:10], "before": {k: d0.get(k) for k in changed[:3]}, "after": {k: d1[k] for k in changed[:3]}, "history": history[-8:]},
                 features={"what": "defaults"})
    ctx.count("C15.histories")
    if i % 12 == 0:
        ctx.sample({"history": history[:12], "length": len(history)})


def panoptica_aggregator():
    from panoptica import Panoptica_Aggregator

    return Panoptica_Aggregator


# ------------------------------------------------------------------------------------- pristine
def pristine_main(inp, outp):
    with open(inp) as fh:
        job = json.load(fh)
    seed = job["seed"]
    out = {}
    order = job["pairs"] if not job.get("reverse") else list(reversed(job["pairs"]))
    for c, k in order:
        cfg = CONFIGS[c]
        pred, refa = make_input(seed, k)[cfg["input"]]
        res = meta.run_all_groups(cfg, pred.copy(), refa.copy())
        out[f"{c}:{k}"] = harness.jsonable(res)
    with open(outp, "w") as fh:
        json.dump(out, fh)


def setup(ctx):
    monitors.install(ctx, set())
    ctx._pending = []


def norm(x):
    """json round trip normalisation"""
    return json.loads(json.dumps(harness.jsonable(x)))


def results_equal(a, b, metrics):
    if set(a) != set(b):
        return "groups"
    for g in a:
        ra, rb = dict(a[g]), dict(b[g])
        for d in (ra, rb):
            for k, v in list(d.items()):
                if v in ("nan", "inf", "-inf"):
                    d[k] = float(v)
            d["lists"] = {m: [float(x) if isinstance(x, str) and x in ("nan", "inf", "-inf") else x for x in l] if isinstance(l, list) else l for m, l in d["lists"].items()}
        k = meta.diff(ra, rb, metrics)
        if k is not None:
            return f"{g}:{k}"
    return None


def teardown(ctx):
    pending = ctx._pending
    if not pending:
        return
    pairs = sorted({(p["cfg"], p["input"]) for p in pending})
    tmp = tempfile.mkdtemp(prefix="c15p_", dir=os.environ.get("VERIF_TMP"))
    outs = []
    procs = []
    for rev in (False, True):
        inp, outp = os.path.join(tmp, f"in{int(rev)}.json"), os.path.join(tmp, f"out{int(rev)}.json")
        with open(inp, "w") as fh:
            json.dump({"seed": ctx.seed, "pairs": pairs, "reverse": rev}, fh)
        procs.append((subprocess.Popen([harness.PY, "-B"] + harness.own_flags() + ["-m", "vf.props.c15", "--pristine", inp, outp], stdout=subprocess.DEVNULL, stderr=subprocess.PIPE, cwd=harness.VERIF), outp))
    for p, outp in procs:
        try:
            _, err = p.communicate(timeout=900)
        except subprocess.TimeoutExpired:
            p.kill()
            ctx.errors.append({"case": None, "tb": "pristine process timed out"})
            return
        if p.returncode != 0 or not os.path.exists(outp):
            ctx.errors.append({"case": None, "tb": "pristine process failed: " + err.decode()[-1500:]})
            return
        with open(outp) as fh:
            outs.append(json.load(fh))
    a, b = outs
    for key in a:
        c = int(key.split(":")[0])
        metrics = CONFIGS[c].get("metrics", pan.DEFAULT_METRICS)
        d = results_equal(a[key], b[key], metrics) if "ERR" not in a[key] and "ERR" not in b[key] else (None if a[key] == b[key] else "ERR")
        ctx.count("C15.pristine_cross_checked")
        if d is not None:
            ctx.viol("pristine_results_depend_on_order", {"pair": key, "key": d, "forward": a[key], "reverse": b[key]}, features={"what": "pristine_order"})
    for p in pending:
        key = f"{p['cfg']}:{p['input']}"
        pr = a[key]
        metrics = CONFIGS[p["cfg"]].get("metrics", pan.DEFAULT_METRICS)
        ctx.count("C15.evaluate_steps_judged")
        if "ERR" in pr and "ERR" not in p["result"]:
            ctx.viol("result_depends_on_history_or_options", {"key": "ERR", "step": p["step"], "observed": "evaluation succeeded", "pristine": pr}, features={"what": "history_or_options", "key": "ERR"})
            continue
        if "ERR" in p["result"]:
            if "ERR" not in pr or pr["ERR"].split(":")[0] != p["result"]["ERR"].split(":")[0]:
                ctx.viol("evaluate_raised_for_option_combination", {"exc": p["result"]["ERR"], "step": p["step"], "pristine": pr if "ERR" in pr else "pristine evaluation succeeded"},
                         features=dict({"exc": p["result"]["ERR"].split(":")[0]}, **p.get("opts", {})))
            continue
        d = results_equal(norm(p["result"]), pr, metrics)
        if d is not None:
            ctx.viol("result_depends_on_history_or_options", {"key": d, "step": p["step"], "history_len": p["history_len"], "observed": p["result"], "pristine": pr},
                     features={"what": "history_or_options", "key": d.split(":")[-1]})


def run(case, ctx):
    fam, i = case["fam"], case["i"]
    if fam == "history":
        run_history(ctx, i, ctx._pending)
        return
    if fam == "options":
        # the complete per-call option product x constructor flags on a fixed input
        import itertools

        tmpdir = tempfile.mkdtemp(prefix="c15o_", dir=os.environ.get("VERIF_TMP"))
        ctors = list(itertools.product([False, True], repeat=3))
        for ci, (sg, lt, vb) in enumerate(ctors):
            if ci % 2 != i:
                continue
            tr = Tracked([0, 3, 4][ci % 3], {"save_group_times": sg, "log_times": lt, "verbose": vb}, tmpdir)
            history = []
            for combo in itertools.product(*OPT_VALUES.values()):
                opts = dict(zip(OPT_VALUES, combo))
                evaluate_step(ctx, tr, 3, opts, history, ctx._pending)
                ctx.count("C15.option_combinations_judged")
            tr.check(ctx, -1, history)
        return
    if fam == "daemon_worker":
        # evaluation inside a daemonic worker process (what Pool.map workers are): the library may refuse it (a daemonic
        # process cannot start the worker pool), but if it returns, the result is the one of the serial run
        c = [0, 7, 2][i % 3]
        cfg = dict(CONFIGS[c])
        cfg["metrics"] = sorted(set(cfg.get("metrics", pan.DEFAULT_METRICS)) | {"RVD"})
        # an input with true positives whose prediction and reference differ in size (all metrics informative)
        for k in [(i * 3 + 2 + j) % N_INPUTS for j in range(N_INPUTS)]:
            pred, refa = make_input(ctx.seed, k)[cfg["input"]]
            serial = meta.run_all_groups(cfg, pred.copy(), refa.copy())
            if any(isinstance(v, dict) and isinstance(v.get("sq_rvd"), float) and v["sq_rvd"] == v["sq_rvd"] and abs(v["sq_rvd"]) > 1e-9 for v in serial.values()):
                break
        outp = os.path.join(os.environ.get("VERIF_TMP", "/tmp"), "c15daemon_%d_%d.json" % (os.getpid(), i))
        ctx.count("evaluations", 2)
        try:
            p = subprocess.run([harness.PY, "-B"] + harness.own_flags() + ["-m", "vf.props.c15", "--daemonworker", str(ctx.seed), str(c), str(k), outp],
                               env=dict(os.environ, VERIF_REAL_POOL="1"), cwd=harness.VERIF, capture_output=True, text=True, timeout=600)
        except subprocess.TimeoutExpired:
            ctx.errors.append({"case": case, "tb": "daemonic-worker helper exceeded the wall-clock watchdog"})
            return
        if not os.path.exists(outp):
            ctx.errors.append({"case": case, "tb": "daemonic-worker helper failed: " + (p.stderr or "")[-1500:]})
            return
        got = json.load(open(outp))
        if got is None or "ERR" in got or all(isinstance(v, dict) and "ERR" in v for v in got.values()):
            ctx.count("C15.daemonic_worker_refused")
            return
        ctx.count("C15.real_pool_judged")
        d = results_equal(norm(serial), got, cfg["metrics"]) if "ERR" not in serial else "ERR"
        if d is not None:
            ctx.viol("serial_and_pool_differ", {"key": d, "serial": serial, "daemonic_worker": got, "cfg": cfg}, features={"what": "daemonic_worker", "key": str(d).split(":")[-1]})
        return
    if fam == "realpool_fork":
        # a fresh interpreter that uses the real process pool from its first call: it evaluates, then forks (as worker
        # processes do) and the child evaluates again; both must return, with the result of the serial run
        c = [0, 2, 7][i % 3]
        cfg = CONFIGS[c]
        k = (i * 5 + 1) % N_INPUTS
        pred, refa = make_input(ctx.seed, k)[cfg["input"]]
        serial = meta.run_all_groups(cfg, pred.copy(), refa.copy())
        outp = os.path.join(os.environ.get("VERIF_TMP", "/tmp"), "c15fork_%d_%d.json" % (os.getpid(), i))
        env = dict(os.environ, VERIF_REAL_POOL="1")
        ctx.count("evaluations", 3)
        try:
            p = subprocess.run([harness.PY, "-B"] + harness.own_flags() + ["-m", "vf.props.c15", "--forkafterpool", str(ctx.seed), str(c), str(k), outp],
                               env=env, cwd=harness.VERIF, capture_output=True, text=True, timeout=600)
        except subprocess.TimeoutExpired:
            ctx.errors.append({"case": case, "tb": "fork-after-pool helper exceeded the wall-clock watchdog"})
            return
        if p.returncode != 0 or not os.path.exists(outp):
            ctx.errors.append({"case": case, "tb": "fork-after-pool helper failed: " + (p.stderr or "")[-1500:]})
            return
        out = json.load(open(outp))
        if out["child"] is None:
            ctx.viol("evaluation_in_forked_child_never_returned", {"cfg": cfg, "note": "the parent had evaluated with the process pool before forking; the child did not return within its step budget (%s s) while the parent's own evaluation took %.2f s" % (out["budget_s"], out["parent_s"])},
                     features={"what": "fork_after_pool"})
            return
        ctx.count("C15.real_pool_judged")
        for who in ("parent", "child"):
            got = out[who]
            d = results_equal(norm(serial), got, cfg.get("metrics", pan.DEFAULT_METRICS)) if "ERR" not in serial and "ERR" not in got else (None if norm(serial) == got else "ERR")
            if d is not None:
                ctx.viol("serial_and_pool_differ", {"key": d, "serial": serial, who: got, "cfg": cfg}, features={"what": "fork_after_pool", "key": str(d).split(":")[-1]})
        return
    if fam == "realpool":
        c = i % len(CONFIGS)
        k = (i * 7) % N_INPUTS
        cfg = CONFIGS[c]
        pred, refa = make_input(ctx.seed, k)[cfg["input"]]
        serial = meta.run_all_groups(cfg, pred.copy(), refa.copy())
        with pan.real_pool():
            real = meta.run_all_groups(cfg, pred.copy(), refa.copy())
        ctx.count("evaluations", 2)
        ctx.count("C15.real_pool_judged")
        metrics = cfg.get("metrics", pan.DEFAULT_METRICS)
        if "ERR" in serial or "ERR" in real:
            if serial != real:
                ctx.viol("serial_and_pool_differ", {"serial": serial, "pool": real, "cfg": cfg}, features={"what": "pool"})
            return
        d = results_equal(norm(serial), norm(real), metrics)
        if d is not None:
            ctx.viol("serial_and_pool_differ", {"key": d, "serial": serial, "pool": real, "cfg": cfg, "pred": pred, "ref": refa}, features={"what": "pool", "key": d.split(":")[-1]})
        if any(isinstance(v["tp"], int) and v["tp"] > 0 for v in real.values()):
            ctx.nontrivial("realpool", c, k)


def fork_after_pool_main(seed, c, k, outp):
    """evaluate with the real pool, fork, evaluate in the child; the child's budget is a generous multiple of the
    time the parent's own evaluation took (300x, at least 120 s), not an absolute deadline"""
    import time

    cfg = CONFIGS[c]
    pred, refa = make_input(seed, k)[cfg["input"]]
    t0 = time.monotonic()
    parent = meta.run_all_groups(cfg, pred.copy(), refa.copy())
    parent_s = time.monotonic() - t0
    budget = max(120.0, 300 * parent_s)
    tmp = outp + ".child"
    pid = os.fork()
    if pid == 0:
        try:
            res = meta.run_all_groups(cfg, pred.copy(), refa.copy())
            with open(tmp, "w") as fh:
                json.dump(harness.jsonable(norm(res)), fh)
        finally:
            os._exit(0)
    deadline = time.monotonic() + budget
    done = False
    while time.monotonic() < deadline:
        w, _ = os.waitpid(pid, os.WNOHANG)
        if w == pid:
            done = True
            break
        time.sleep(0.05)
    if not done:
        os.kill(pid, 9)
        os.waitpid(pid, 0)
    child = json.load(open(tmp)) if done and os.path.exists(tmp) else None
    with open(outp, "w") as fh:
        json.dump({"parent": harness.jsonable(norm(parent)), "child": child, "parent_s": parent_s, "budget_s": budget}, fh)
    os._exit(0)  # do not run exit handlers of pools a changed library may have left behind (they can block)


def _daemon_target(seed, c, k, outp):
    cfg = dict(CONFIGS[c])
    cfg["metrics"] = sorted(set(cfg.get("metrics", pan.DEFAULT_METRICS)) | {"RVD"})
    pred, refa = make_input(seed, k)[cfg["input"]]
    try:
        res = norm(meta.run_all_groups(cfg, pred.copy(), refa.copy()))
    except BaseException as e:  # noqa: BLE001
        res = {"ERR": "%s: %r" % (type(e).__name__, e)}
    with open(outp, "w") as fh:
        json.dump(harness.jsonable(res), fh)


def daemon_worker_main(seed, c, k, outp):
    import multiprocessing

    p = multiprocessing.Process(target=_daemon_target, args=(seed, c, k, outp), daemon=True)
    p.start()
    p.join(300)
    if p.is_alive():
        p.kill()
    os._exit(0)


if __name__ == "__main__":
    if len(sys.argv) >= 6 and sys.argv[1] == "--daemonworker":
        daemon_worker_main(int(sys.argv[2]), int(sys.argv[3]), int(sys.argv[4]), sys.argv[5])
    if len(sys.argv) >= 6 and sys.argv[1] == "--forkafterpool":
        fork_after_pool_main(int(sys.argv[2]), int(sys.argv[3]), int(sys.argv[4]), sys.argv[5])
    if len(sys.argv) >= 4 and sys.argv[1] == "--pristine":
        pristine_main(sys.argv[2], sys.argv[3])
