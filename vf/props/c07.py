"""C07 -- ASSD equals the mean of the two directed average surface distances."""

from __future__ import annotations

import itertools

import numpy as np

from vf import gen, monitors, pan, pipeline, ref

ID = "C07"
LEVEL = "exploration"
TECHNIQUE = "runtime monitoring: call monitor on the real Metric.ASSD against a brute-force O(n*m) border-distance model, plus symmetry / zero-iff-equal-borders / embedding metamorphic checks and the pipeline's per-instance ASSD list"
RULE = (
    "cases = pair of non-empty masks; enumerated completely: all pairs of non-empty binary masks on 1x5 and 2x3 (and 2x2x2, "
    "3x3 strided in quick, complete in thorough); generated: single voxels, lines, plates, hollow (nested) boxes, far-apart "
    "objects, objects on borders/corners, extent-1 axes, random blobs up to 16^2 / 8^3, long thin arrays (up to 100000 voxels along one axis, objects far apart); each case also re-evaluated after "
    "zero padding 0..3 per side, after tight cropping and with exchanged arguments. Non-trivial = the two masks differ; "
    "distinct = hash of the two masks."
    ' Further families: the same array objects rescored after in-place edits; calls with non-default options (connectivity, voxel spacing) before judged default calls.'
)
ASSUMPTIONS = [
    "border voxel = foreground voxel with a background or out-of-array face neighbour (the statement); distances Euclidean in voxel units",
    "float comparison: relative 1e-9",
]
MINIMUM = {"C07.checked": 5000, "C07.embedding_checked": 1000}
BUDGET_S = {"quick": 1200, "thorough": 900}

TINY = {"m1x5": ((1, 5), 1, 1), "m5": ((5,), 1, 1), "m2x3": ((2, 3), 1, 1), "m2x2x2": ((2, 2, 2), 13, 1), "m3x3": ((3, 3), 53, 1)}
EXHAUSTIVE = {"quick": False, "thorough": True}


def cases(tier, seed):
    for name, (shape, qstep, tstep) in TINY.items():
        n = gen.tiny_count(shape, 2)
        step = qstep if tier == "quick" else tstep
        for i in range(seed % step, n, step):
            yield {"fam": name, "i": i}
    for i in range(2500 if tier == "quick" else 60000):
        yield {"fam": "shapes", "i": i}
    for i in range(300 if tier == "quick" else 6000):
        yield {"fam": "pipeline", "i": i}
    for i in range(24 if tier == "quick" else 200):
        yield {"fam": "long", "i": i}


def setup(ctx):
    monitors.install(ctx, {"C07"})


def assd(refa, pred, ridx=None, pidx=None):
    return float(pan.METRIC["ASSD"](refa, pred, ridx, pidx))


def check_pair(ctx, a, b, fam, r=None):
    """a, b: non-empty bool/0-1 masks of equal shape"""
    ndim = a.ndim
    ctx.count("evaluations")
    v = assd(a, b)  # monitored: compared with the brute-force definition
    det = {"a": a, "b": b, "value": v}
    feats = {"ndim": ndim, "family": fam}
    if not np.array_equal(a != 0, b != 0):
        ctx.nontrivial(gen.arr_key(a, b))
    # symmetry
    w = assd(b, a)
    ctx.count("evaluations")
    if not pan.same(v, w, rel=1e-9, abs_=1e-9):
        ctx.viol("not_symmetric", dict(det, swapped=w), features=feats)
    # zero exactly when the borders coincide
    A, B = frozenset(ref.vox(a)), frozenset(ref.vox(b))
    same_border = set(ref.border(A, ndim)) == set(ref.border(B, ndim))
    if (v == 0.0) != same_border:
        ctx.viol("zero_iff_borders_coincide_broken", dict(det, same_border=same_border), features=feats)
    ctx.count("C07.zero_iff_checked")
    if same_border and A != B:
        ctx.count("f:C07.equal_borders_different_masks")
    # embedding: zero padding and tight crop leave the value unchanged
    if r is None:
        r = np.random.default_rng(int(a.sum()) * 31 + int(b.sum()))
    pads = [(int(r.integers(0, 4)), int(r.integers(0, 4))) for _ in range(ndim)]
    pa, pb = np.pad(a, pads), np.pad(b, pads)
    vp = assd(pa, pb)
    ctx.count("evaluations")
    ctx.count("C07.embedding_checked")
    if not pan.same(v, vp, rel=1e-9, abs_=1e-9):
        ctx.viol("changed_by_zero_padding", dict(det, pads=pads, padded=vp), features=feats)
    fg = np.argwhere((a != 0) | (b != 0))
    lo, hi = fg.min(axis=0), fg.max(axis=0) + 1
    sl = tuple(slice(int(x), int(y)) for x, y in zip(lo, hi))
    if any(s.start > 0 or s.stop < n for s, n in zip(sl, a.shape)):
        vc = assd(a[sl], b[sl])
        ctx.count("evaluations")
        ctx.count("C07.embedding_checked")
        if not pan.same(v, vc, rel=1e-9, abs_=1e-9):
            ctx.viol("changed_by_tight_crop", dict(det, crop=[(s.start, s.stop) for s in sl], cropped=vc), features=feats)


def shape_pair(seed, i):
    r = gen.rng(seed, "c07", i)
    ndim = int(r.choice((1, 2, 2, 3, 3)))
    n = {1: 40, 2: 16, 3: 8}[ndim]
    shape = tuple(int(r.integers(1 if r.random() < 0.15 else 2, n + 1)) for _ in range(ndim))
    kinds = ["voxel", "line", "plate", "hollow", "far", "corner", "blob", "box", "bern"]
    out = []
    fam = kinds[i % len(kinds)]
    for side in range(2):
        m = np.zeros(shape, dtype=np.uint8)
        k = fam if not (fam == "far" and side) else "corner"
        if k in ("voxel", "far"):
            m[tuple(int(r.integers(0, s)) for s in shape)] = 1
        elif k == "line":
            ax = int(r.integers(0, ndim))
            idx = [int(r.integers(0, s)) for s in shape]
            idx[ax] = slice(None) if r.random() < 0.5 else slice(int(r.integers(0, shape[ax])), None)
            m[tuple(idx)] = 1
        elif k == "plate":
            ax = int(r.integers(0, ndim))
            idx = [slice(None)] * ndim
            idx[ax] = int(r.integers(0, shape[ax]))
            m[tuple(idx)] = 1
        elif k == "hollow":
            m[gen._box(shape, r, 0.9)] = 1
            # remove the interior of the box (keep its shell) half of the time on one side
            from scipy.ndimage import binary_erosion

            if side == 0:
                m[binary_erosion(m.astype(bool))] = 0
        elif k == "corner":
            idx = tuple(0 if r.random() < 0.5 else s - 1 for s in shape)
            m[idx] = 1
            if r.random() < 0.5:
                m[gen._box(shape, r, 0.4)] = 1
        elif k == "blob":
            for c in gen._blob(shape, r, int(r.integers(1, 6 * max(shape)))):
                m[c] = 1
        elif k == "box":
            m[gen._box(shape, r, 0.8)] = 1
        else:
            m = (r.random(shape) < r.random() * 0.8 + 0.1).astype(np.uint8)
        if not m.any():
            m[tuple(int(r.integers(0, s)) for s in shape)] = 1
        out.append(m)
    return out[0], out[1], fam, r


def run(case, ctx):
    fam, i = case["fam"], case["i"]
    if fam in TINY:
        shape = TINY[fam][0]
        a, b = gen.tiny_pair(shape, 2, i)
        if not a.any() or not b.any():
            ctx.count("skipped_empty_mask")
            return
        if i % 2:
            a, b = a.astype(bool), b.astype(bool)
        check_pair(ctx, a, b, fam)
        if i % 211 == 0:
            ctx.sample({"family": fam, "a": a, "b": b})
        return
    if fam == "shapes":
        a, b, k, r = shape_pair(ctx.seed, i)
        if i % 50 == 7:
            # a call with non-default options (full connectivity, voxel spacing) comes first: it is not judged (the
            # statement is about the default), but the default calls that follow are
            try:
                pan.METRIC["ASSD"](a, b, None, None, connectivity=min(2, a.ndim))
                pan.METRIC["ASSD"](a, b, None, None, voxelspacing=tuple([2.0] * a.ndim))
                ctx.count("C07.non_default_option_calls_before_default_ones", 2)
            except Exception:  # noqa: BLE001
                ctx.count("C07.non_default_option_call_raised")
        ctx.count("f:shape." + k)
        ctx.count("f:ndim.%d" % a.ndim)
        check_pair(ctx, a, b, k, r)
        if i % 4 == 0:  # same array objects, new content (each call judged by the monitor against its own input)
            a2 = a.copy()
            assd(a2, b)
            flat = a2.reshape(-1)
            flat[int(r.integers(0, flat.size))] = 1
            flat[int(r.integers(0, flat.size))] = 0
            if a2.any():
                assd(a2, b)
                a2[...] = b
                assd(a2, b)
                ctx.count("evaluations", 3)
                ctx.count("C07.inplace_rescored")
        # with label selection on non-binary arrays
        la, lb = a.astype(np.uint16) * 7, b.astype(np.uint16) * 300
        v1, v2 = assd(a, b), assd(la, lb, 7, [300, 5])
        ctx.count("evaluations", 2)
        if not pan.same(v1, v2, rel=1e-12, abs_=1e-12):
            ctx.viol("label_selection_changes_value", {"a": a, "b": b, "plain": v1, "selected": v2}, features={"ndim": a.ndim})
        if i % 200 == 0:
            ctx.sample({"family": k, "shape": list(a.shape), "a_voxels": int(a.sum()), "b_voxels": int(b.sum()), "assd": v1})
        return
    if fam == "long":
        # long thin arrays: distances far beyond 2^15 / sqrt(2^31) voxels along one axis
        r = gen.rng(ctx.seed, "c07long", i)
        n = int(r.choice([300, 40_000, 70_000, 100_000]))
        shape = [(n,), (2, n), (n, 1), (1, 2, n)][i % 4]
        a = np.zeros(shape, dtype=np.uint8)
        b = np.zeros(shape, dtype=np.uint8)
        ax = int(np.argmax(shape))
        def put(arr, lo, hi):
            idx = [slice(None)] * arr.ndim
            idx[ax] = slice(lo, hi)
            arr[tuple(idx)] = 1
        w = int(r.integers(1, 4))
        put(a, int(r.integers(0, 5)), int(r.integers(5, 9)))
        put(b, n - w - int(r.integers(0, 5)), n - int(r.integers(0, 1)))
        if i % 3 == 0:
            put(a, n // 2, n // 2 + 2)
        ctx.count("f:shape.long")
        check_pair(ctx, a, b, "long", r)
        return
    if fam == "pipeline":
        # the per-true-positive ASSD values reported by evaluate() (covers the per-instance crop)
        pred, refa, f = gen.random_pair(ctx.seed, 50000 + i, dtype=np.uint8, family=["shift", "rects", "blobs", "border", "split"][i % 5])
        cfg = {"input": "UNMATCHED_INSTANCE", "matcher": {"kind": "naive", "metric": "IOU", "thr": [0.0001, 0.3, 0.5][i % 3]}, "metrics": ["ASSD"]}
        monitors.S.enabled = {"C07", "capture"}
        _, info = pipeline.check_evaluate(ctx, ID, pred, refa, cfg, lists_only=True)
        monitors.S.enabled = {"C07"}
        if info.get("tp"):
            ctx.count("C07.pipeline_lists_judged")
            ctx.nontrivial(gen.arr_key(pred, refa), "pipeline")
