"""C05 -- instance approximation yields exactly the connected components."""

from __future__ import annotations

import numpy as np

from vf import gen, monitors, pan

ID = "C05"
LEVEL = "exploration"
TECHNIQUE = "runtime monitoring: post-condition monitor on the real approximate_instances against an independent BFS connected-components model of the documented connectivity"
RULE = (
    "cases = (semantic map pair, backend in {default, cc3d, scipy}); enumerated completely: binary masks 1-D length<=8 (10 "
    "thorough), 2x3 / 3x3 (3x4 thorough), 2x2x2 (2x2x3 thorough) and 3-label maps on 2x3 and 2x2x2 (thorough); generated: "
    "diagonal chains, multi-label adjacency, Bernoulli noise up to 12x12 / 6x6x6 / length 60, signed and unsigned dtypes, "
    "checkerboards with more than 255 components (one with more than 65535 in thorough). Each side of a pair is judged "
    "separately. Non-trivial = at least two foreground voxels; distinct = hash of (array, dtype, backend)."
    ' Further families: approximator objects shared by all calls of a shard (1-D/2-D/3-D in turn), Fortran / transposed layouts, more than 2^20 elements and one 256^3 volume, exactly 255..257 components, extreme label values beside classes that a narrow cast would erase or join.'
)
ASSUMPTIONS = [
    "documented connectivity: cc3d = 8/26-connectivity and label aware, scipy = 4/6-connectivity on the non-zero mask, default = cc3d for 3-D and scipy below",
    "input without negative values (the statement's quantifier); label values below 2^63 (the third-party cc3d backend raises OverflowError beyond, which is outside panoptica)",
]
MINIMUM = {"C05.checked": 3000, "f:C05.more_than_255_components": 2}
BUDGET_S = {"quick": 1200, "thorough": 900}

BIN = {
    # name: (shape, alphabet, quick?)
    "b1d8": ((8,), 2, True),
    "b2x3": ((2, 3), 2, True),
    "b3x3": ((3, 3), 2, True),
    "b2x2x2": ((2, 2, 2), 2, True),
    "b1d10": ((10,), 2, False),
    "b3x4": ((3, 4), 2, False),
    "b2x2x3": ((2, 2, 3), 2, False),
    "l2x3": ((2, 3), 4, False),
    "l2x2x2": ((2, 2, 2), 3, False),
    "l1d6": ((6,), 3, True),
    "l2x2": ((2, 2), 4, True),
}
EXHAUSTIVE = {"quick": True, "thorough": True}


def cases(tier, seed):
    for name, (shape, alpha, q) in BIN.items():
        if tier == "quick" and not q:
            continue
        n = alpha ** int(np.prod(shape))
        # two maps per case (prediction = map i, reference = map n-1-i)
        for i in range(n):
            yield {"fam": name, "i": i}
    for i in range(5000 if tier == "quick" else 120000):
        yield {"fam": "rand", "i": i}
    for i in range(24 if tier == "quick" else 96):
        yield {"fam": "many", "i": i}
    for i in range(2 if tier == "quick" else 8):
        yield {"fam": "big", "i": i}
    yield {"fam": "big", "i": 100}  # 2^24 voxels
    if tier == "thorough":
        yield {"fam": "huge", "i": 0}


def setup(ctx):
    monitors.install(ctx, {"C05"})


DTYPES = [np.uint8, np.int8, np.uint16, np.int16, np.uint32, np.int32, np.uint64, np.int64]


def approx(ctx, pred, refa, backend, fam):
    from panoptica.utils.processing_pair import SemanticPair

    ctx.count("evaluations")
    # half of the calls go through one approximator object per backend that lives as long as the shard and sees
    # 1-D, 2-D and 3-D inputs in turn (an approximator is a reusable component of an evaluator)
    shared = ctx.__dict__.setdefault("_shared_approx", {})
    if ctx.cases_run % 2 == 0:
        if backend not in shared:
            shared[backend] = pan.ConnectedComponentsInstanceApproximator(cca_backend=pan.BACKEND[backend])
        a = shared[backend]
        ctx.count("f:C05.shared_approximator")
    else:
        a = pan.ConnectedComponentsInstanceApproximator(cca_backend=pan.BACKEND[backend])
    monitors.S.backend_override = (backend,)
    try:
        with pan.quiet():
            a.approximate_instances(SemanticPair(pred.copy(), refa.copy()))
    except Exception as e:  # noqa: BLE001
        ctx.viol("approximate_instances_raised", {"exc": repr(e)[:300], "pred": pred if pred.size < 200 else "(large)", "ref": refa if refa.size < 200 else "(large)", "backend": backend},
                 features={"backend": backend or "default", "ndim": pred.ndim, "exc": type(e).__name__, "dtype": str(pred.dtype)})
        return
    for arr in (pred, refa):
        if (arr != 0).sum() >= 2:
            ctx.nontrivial(gen.arr_key(arr), backend)
    ctx.count("f:backend.%s.%dd" % (backend or "default", pred.ndim))
    # the same buffers again through a transposed view (same bytes, other memory order) and a Fortran copy,
    # on the same approximator object: every call is judged against the components of its own input
    if pred.ndim >= 2 and fam != "nolayout" and ctx.cases_run % 3 == 0:
        for p2, r2 in ((pred.T, refa.T), (np.asfortranarray(pred), np.asfortranarray(refa))):
            ctx.count("evaluations")
            ctx.count("f:C05.layout_variant")
            try:
                with pan.quiet():
                    a.approximate_instances(SemanticPair(p2, r2))
            except Exception as e:  # noqa: BLE001
                ctx.viol("approximate_instances_raised", {"exc": repr(e)[:300], "layout": "transposed/fortran", "shape": list(p2.shape), "backend": backend},
                         features={"backend": backend or "default", "ndim": pred.ndim, "exc": type(e).__name__, "dtype": str(pred.dtype), "layout": True})


def run(case, ctx):
    fam, i = case["fam"], case["i"]
    if fam in BIN:
        shape, alpha, _ = BIN[fam]
        n = alpha ** int(np.prod(shape))
        dtype = DTYPES[i % len(DTYPES)]
        pred = gen.tiny_single(shape, alpha, i, dtype=dtype)
        refa = gen.tiny_single(shape, alpha, n - 1 - i, dtype=dtype)
        for backend in (None, "cc3d", "scipy"):
            approx(ctx, pred, refa, backend, fam)
        if i % 97 == 0:
            ctx.sample({"family": fam, "dtype": str(pred.dtype), "pred": pred, "ref": refa})
        return
    if fam == "rand":
        r = gen.rng(ctx.seed, "c05", i)
        dtype = DTYPES[i % len(DTYPES)]
        pred, refa, f = gen.random_pair(ctx.seed, i, dtype=np.uint8, family=["diag", "touch", "bern", "blobs", "rects", "noise"][i % 6])
        ctx.count("f:family." + f)
        if i % 2:
            pred, refa = gen.to_semantic(pred, r, 3), gen.to_semantic(refa, r, 3)
        if i % 5 == 0:  # large label values inside the dtype
            top = min(int(np.iinfo(dtype).max), 2**63 - 1)  # cc3d (third party) cannot take labels >= 2^63
            pred = pred.astype(dtype)
            refa = refa.astype(dtype)
            pred[pred == 1] = top
            refa[refa == 2] = top - 1
            if np.dtype(dtype).itemsize >= 2:
                # together with classes that a too narrow cast would send to 0 or onto another class
                pred[pred == 2] = 256
                refa[refa == 3] = 513
                pred[pred == 3] = 257 if i % 10 == 0 else 3
        pred, refa = pred.astype(dtype), refa.astype(dtype)
        for backend in (None, "cc3d", "scipy"):
            approx(ctx, pred, refa, backend, fam)
        return
    if fam == "many":
        r = gen.rng(ctx.seed, "many", i)
        # checkerboards: more than 255 components for face connectivity (and isolated voxels for full connectivity)
        if i % 3 == 0:
            # exactly 255 / 256 / 257 components (dtype switch of the result), labels at 255|256 and 65535|65536
            k = [255, 256, 257, 300][(i // 3) % 4]
            pred = np.zeros(2 * 300 + 2, dtype=np.uint32)
            pred[1 : 2 * k : 2] = [255, 256, 65535, 65536][(i // 3) % 4]
            refa = np.zeros_like(pred)
            refa[1 : 2 * [256, 255, 2, 257][(i // 3) % 4] : 2] = 1
            refa[-1] = [65536, 65535, 256, 255][(i // 3) % 4]
        elif i % 3 == 1:
            pred = np.zeros((36, 36), dtype=np.uint16)
            pred[::2, ::2] = 1
            refa = np.zeros_like(pred)
            refa[1::2, 1::2] = 2
            refa[::2, ::2] = 1  # diagonal contacts between different labels
        else:
            pred = np.zeros((8, 10, 10), dtype=np.int32)
            pred[::2, ::2, ::2] = 3
            refa = np.zeros_like(pred)
            refa[1::2, ::2, 1::2] = 1
        for backend in (None, "cc3d", "scipy"):
            approx(ctx, pred, refa, backend, fam)
        return
    if fam == "big":
        # more than 2^20 elements, sparse foreground, adjacent different labels and diagonal contacts
        r = gen.rng(ctx.seed, "big", i)
        if i == 100:  # 2^24 voxels in 3-D (sparse)
            pred = np.zeros((256, 256, 256), dtype=np.uint8)
            refa = np.zeros_like(pred)
            for arr, lab in ((pred, 1), (refa, 2)):
                for _ in range(5):
                    z, y, x = (int(v) for v in r.integers(0, 250, size=3))
                    arr[z, y, x] = lab
                    arr[z + 1, y + 1, x + 1] = lab
                    arr[z + 2, y + 1, x + 1] = 3 - lab
        elif i % 2 == 0:
            pred = np.zeros(2**20 + 7, dtype=np.uint8)
            refa = np.zeros_like(pred)
            for arr in (pred, refa):
                for _ in range(6):
                    p0 = int(r.integers(0, pred.size - 10))
                    arr[p0 : p0 + 2] = 1
                    arr[p0 + 2 : p0 + 4] = 2
        else:
            pred = np.zeros((1024, 1030), dtype=np.uint8)
            refa = np.zeros_like(pred)
            for arr in (pred, refa):
                for _ in range(6):
                    y, x = int(r.integers(0, 1020)), int(r.integers(0, 1020))
                    arr[y, x] = 1
                    arr[y + 1, x + 1] = 1
                    arr[y + 2, x + 1] = 2
        monitors.MAX_VOX = 10**7
        for backend in (None, "cc3d", "scipy"):
            approx(ctx, pred, refa, backend, "nolayout")
        monitors.MAX_VOX = 400_000
        ctx.count("f:C05.more_than_2^20_elements")
        return
    if fam == "huge":
        pred = np.zeros(2 * 66000, dtype=np.uint8)
        pred[::2] = 1
        refa = np.zeros_like(pred)
        refa[:10] = 1
        monitors.MAX_VOX = 10**7
        for backend in (None, "cc3d"):
            approx(ctx, pred, refa, backend, fam)
        monitors.MAX_VOX = 400_000
