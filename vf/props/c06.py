"""C06 -- Dice, IoU, RVD and clDice equal their set-theoretic definitions."""

from __future__ import annotations

from fractions import Fraction

import numpy as np

from vf import gen, monitors, pan, ref

ID = "C06"
LEVEL = "exploration"
TECHNIQUE = "runtime monitoring: call monitor on the real Metric.__call__ against exact rational set formulas (voxels selected by python-int comparison), plus derived-relation checks on the library's own outputs"
RULE = (
    "cases = (reference array, prediction array, reference label, prediction label or list of labels | no selection) x "
    "metric in {DSC, IOU, RVD, clDSC}; all pairs of 2x3 binary masks enumerated; generated 1-D..3-D label arrays in every "
    "integer dtype and bool with labels up to the dtype extremes, present and absent labels, python int / numpy scalar / "
    "list (1..4 labels) selections; a few large volumes checked against exact integer counts. Non-trivial = both selected "
    "voxel sets non-empty; distinct = hash of (arrays, dtype, selection)."
    ' Further families: non-contiguous and mixed layouts, long lists of widely spread labels, the same array objects rescored after an in-place edit, absent labels outside the dtype range and negative ones, floating point label maps with fractional label values.'
)
ASSUMPTIONS = [
    "without label selection the arrays are masks (bool or 0/1)",
    "clDice: the scikit-image skeleton is trusted (same routine on both sides); only its use is checked",
    "calls passing only one of ref_instance_idx / pred_instance_idx are outside the statement (ambiguous) and not judged",
]
MINIMUM = {"f:absent_label_outside_dtype": 100, "C06.checked": 5000, "C06.checked.clDSC": 100, "C06.relations_checked": 500}
BUDGET_S = {"quick": 1200, "thorough": 900}

DTYPES = [np.uint8, np.int8, np.uint16, np.int16, np.uint32, np.int32, np.uint64, np.int64]


def cases(tier, seed):
    n = gen.tiny_count((2, 3), 2)
    for i in range(n):
        yield {"fam": "t2x3b", "i": i}
    for i in range(8000 if tier == "quick" else 200000):
        yield {"fam": "rand", "i": i}
    for i in range(3 if tier == "quick" else 12):
        yield {"fam": "large", "i": i}


def setup(ctx):
    monitors.install(ctx, {"C06"})


def call(metric, refa, pred, ridx=None, pidx=None):
    return pan.METRIC[metric](refa, pred, ridx, pidx)


def relations(ctx, refa, pred, ridx, pidx, vals):
    """derived relations on the library's own outputs"""
    d, i = vals.get("DSC"), vals.get("IOU")
    det = {"ref": refa, "pred": pred, "ref_idx": ridx, "pred_idx": pidx, "values": vals}
    feats = {"dtype": str(refa.dtype), "ndim": refa.ndim}
    sel = monitors.select(refa, pred, ridx, pidx if not isinstance(pidx, np.generic) else pidx.item())
    if sel is None or (not sel[0] and not sel[1]):
        return
    ctx.count("C06.relations_checked")
    if d is not None and i is not None:
        if not pan.same(float(d), 2 * float(i) / (1 + float(i)), abs_=1e-12):
            ctx.viol("dice_not_2iou_over_1_plus_iou", det, features=feats)
    if not isinstance(pidx, list):
        for m in ("DSC", "IOU"):
            sw = call(m, pred, refa, pidx, ridx)
            if not pan.same(float(sw), float(vals[m]), abs_=1e-12):
                ctx.viol("not_symmetric", dict(det, metric=m, swapped=pan.pyval(sw)), features=feats)


def run(case, ctx):
    fam, i = case["fam"], case["i"]
    if fam == "t2x3b":
        pred, refa = gen.tiny_pair((2, 3), 2, i, dtype=[np.uint8, bool, np.int64][i % 3])
        for ridx, pidx in ((None, None), (1, 1), (1, [1])):
            vals = {}
            for m in ("DSC", "IOU", "RVD", "clDSC"):
                ctx.count("evaluations")
                try:
                    with np.errstate(all="ignore"):
                        vals[m] = pan.pyval(call(m, refa, pred, ridx, pidx))
                except Exception as e:  # noqa: BLE001
                    vals[m] = "ERR:" + type(e).__name__
            if refa.any() and pred.any():
                ctx.nontrivial(gen.arr_key(pred, refa), ridx, pidx)
                relations(ctx, refa, pred, ridx, pidx, vals)
        return
    if fam == "rand":
        r = gen.rng(ctx.seed, "c06", i)
        dtype = DTYPES[i % len(DTYPES)]
        pred, refa, f = gen.random_pair(ctx.seed, i, dtype=np.uint8)
        ctx.count("f:family." + f)
        info = np.iinfo(dtype)
        pred, refa = pred.astype(dtype), refa.astype(dtype)
        if i % 4 == 0:  # labels at the dtype extremes
            top = int(info.max)
            pred[pred == 1] = top
            refa[refa == 1] = top
            pred[pred == 2] = top - 1
        plabs = [int(x) for x in np.unique(pred) if x != 0]
        rlabs = [int(x) for x in np.unique(refa) if x != 0]
        absent = int(info.max) - 7
        if i % 5 == 1 and info.bits < 64:
            # absent labels that do not fit the arrays' dtype: an existing label + 2^bits (wraps onto it if the
            # label is cast to the array dtype), max + 2, and a small negative one for signed arrays
            base = int(r.choice(plabs)) if plabs else 1
            absent = [base + 2 ** info.bits, int(info.max) + 2, base + 2 ** (info.bits - (1 if info.min < 0 else 0))][i % 3]
            ctx.count("f:absent_label_outside_dtype")
        if i % 7 == 3 and dtype is not np.uint64:
            absent = -int(r.integers(1, 4))  # a negative label is simply absent (also from an unsigned map)
            ctx.count("f:absent_negative_label")
        ridx = int(r.choice(rlabs)) if rlabs and r.random() < 0.85 else absent
        k = int(r.integers(0, 5))
        if k == 0:
            pidx = int(r.choice(plabs)) if plabs and r.random() < (0.85 if i % 5 != 1 else 0.3) else absent
        elif k == 1:
            pidx = dtype(r.choice(plabs)) if plabs else dtype(absent)  # numpy scalar
        else:
            pool = plabs + [absent, absent - 1]
            pidx = [int(x) for x in r.choice(pool, size=min(len(pool), int(r.integers(1, 5))), replace=False)]
        if i % 16 == 9:
            # floating point label maps with fractional label values (0.5, 1.0, 1.5, ...): a label selects the voxels
            # that are equal to it
            fdt = [np.float32, np.float64][(i // 16) % 2]
            sc = 0.5 if int(info.max) < 2**20 or i % 4 else 1.0
            if max(plabs + rlabs + [1]) < 2**20:
                pred, refa = pred.astype(fdt) * sc, refa.astype(fdt) * sc
                ridx = float(ridx) * sc
                pidx = [float(x) * sc for x in pidx] if isinstance(pidx, list) else float(pidx) * sc
                ctx.count("f:float_label_maps")
        ctx.count("f:pidx." + ("list" if isinstance(pidx, list) else type(pidx).__name__))
        metrics = ["DSC", "IOU", "RVD"] + (["clDSC"] if refa.ndim in (2, 3) else [])
        vals = {}
        for m in metrics:
            ctx.count("evaluations")
            try:
                with np.errstate(all="ignore"):
                    vals[m] = pan.pyval(call(m, refa, pred, ridx, pidx))
            except Exception as e:  # noqa: BLE001
                vals[m] = "ERR:" + type(e).__name__
        sel = monitors.select(refa, pred, ridx, pidx if not isinstance(pidx, np.generic) else pidx.item())
        if sel and sel[0] and sel[1]:
            ctx.nontrivial(gen.arr_key(pred, refa), ridx, repr(pidx))
            if i % 50 == 0:
                ctx.sample({"family": f, "dtype": str(dtype), "ref_idx": ridx, "pred_idx": pidx, "values": vals, "shape": list(refa.shape)})
        if all(isinstance(vals.get(m), (int, float)) for m in ("DSC", "IOU")):
            relations(ctx, refa, pred, ridx, pidx, vals)
        # binary, no selection
        rb, pb = (refa != 0), (pred != 0)
        if i % 3 == 0:
            rb, pb = rb.astype(np.uint8), pb.astype(np.uint8)
        for m in metrics:
            ctx.count("evaluations")
            try:
                with np.errstate(all="ignore"):
                    call(m, rb, pb)
            except Exception:  # noqa: BLE001
                pass
        # masks that are not C-contiguous: Fortran order, views into a larger array (bool and integer)
        if refa.ndim >= 2 and i % 3 == 2:
            pads = [(1, 2)] * refa.ndim
            inner = tuple(slice(1, -2) for _ in range(refa.ndim))
            variants = [(np.asfortranarray(rb), np.asfortranarray(pb)), (np.pad(rb, pads)[inner], np.pad(pb, pads)[inner]),
                        (np.pad(rb.astype(bool), pads)[inner], np.pad(pb.astype(bool), pads)[inner])]
            for rv, pv in variants:
                for m in metrics:
                    ctx.count("evaluations")
                    ctx.count("C06.non_contiguous_calls")
                    try:
                        with np.errstate(all="ignore"):
                            call(m, rv, pv)
                    except Exception as e:  # noqa: BLE001
                        if rv.any() and pv.any():
                            ctx.viol("metric_raised_on_non_contiguous_masks", {"metric": m, "exc": repr(e)[:200], "shape": list(rv.shape), "dtype": str(rv.dtype), "c_contiguous": bool(rv.flags["C_CONTIGUOUS"]), "f_contiguous": bool(rv.flags["F_CONTIGUOUS"])},
                                     features={"metric": m, "ndim": rv.ndim, "dtype": str(rv.dtype), "exc": type(e).__name__})
        # reference and prediction in different memory layouts (values unchanged)
        if refa.ndim >= 2 and i % 3 == 1:
            rF, pF = np.asfortranarray(rb), np.ascontiguousarray(pb)
            for m in ("DSC", "IOU", "RVD"):
                try:
                    with np.errstate(all="ignore"):
                        call(m, rF, pF)
                        call(m, np.asfortranarray(refa), np.ascontiguousarray(pred), ridx, pidx)
                        call(m, refa.T, np.ascontiguousarray(pred.T), ridx, pidx)
                    ctx.count("evaluations", 3)
                    ctx.count("C06.mixed_layout_calls", 3)
                except Exception:  # noqa: BLE001
                    pass
        # a long list of prediction labels spread over a wide range
        if i % 7 == 3:
            big_p = pred.astype(np.uint32)
            big_r = refa.astype(np.uint32)
            spread = {int(l): int(1000 + 7919 * l) for l in np.unique(big_p) if l != 0}
            for l, v in spread.items():
                big_p[pred == l] = v
            present = list(spread.values())
            n_lab = int(r.integers(12, 150))
            cand = np.unique(np.concatenate([np.array(present, dtype=np.int64), r.integers(1, 2_000_000, size=n_lab)]))
            lst = [int(x) for x in r.choice(cand, size=min(len(cand), n_lab), replace=False) if r.random() < 0.9 or True]
            keep = set(int(x) for x in r.choice(present, size=max(1, len(present) // 2), replace=False)) if present else set()
            lst = [x for x in lst if x not in set(present) or x in keep]
            for m in ("DSC", "IOU", "RVD"):
                try:
                    with np.errstate(all="ignore"):
                        call(m, big_r, big_p, ridx if ridx in rlabs else (rlabs[0] if rlabs else 1), lst)
                    ctx.count("evaluations")
                    ctx.count("C06.long_label_list_calls")
                except Exception:  # noqa: BLE001
                    pass
        # a label-selected call repeated on the same reference array object after an in-place edit
        if i % 2 == 1 and rlabs:
            work = refa.copy()
            lab = rlabs[0]
            for m in ("DSC", "IOU"):
                try:
                    with np.errstate(all="ignore"):
                        call(m, work, pred, lab, plabs[0] if plabs else lab)
                        flat = work.reshape(-1)
                        flat[int(r.integers(0, flat.size))] = lab
                        flat[int(r.integers(0, flat.size))] = 0
                        call(m, work, pred, lab, plabs[0] if plabs else lab)
                    ctx.count("evaluations", 2)
                    ctx.count("C06.inplace_rescored")
                except Exception:  # noqa: BLE001
                    pass
        # the same two array objects scored again after an in-place edit (each call is judged by the monitor)
        if i % 2 == 0 and pb.size > 2:
            for m in ("DSC", "IOU", "RVD"):
                try:
                    with np.errstate(all="ignore"):
                        call(m, rb, pb)
                        flat = pb.reshape(-1)
                        k = int(r.integers(0, flat.size))
                        flat[k] = 1 - flat[k] if pb.dtype != bool else ~flat[k]
                        flat[(k * 7 + 1) % flat.size] = 1
                        call(m, rb, pb)
                        ctx.count("evaluations", 2)
                        ctx.count("C06.inplace_rescored")
                except Exception:  # noqa: BLE001
                    pass
        return
    if fam == "large":
        r = gen.rng(ctx.seed, "large", i)
        n = 64 if ctx.tier == "quick" else 128
        refa = (r.random((n, n, n)) < 0.6).astype([np.uint8, bool, np.int32][i % 3])
        pred = (r.random((n, n, n)) < 0.6).astype(refa.dtype)
        X, Y = int(np.count_nonzero(refa)), int(np.count_nonzero(pred))
        I = int(np.count_nonzero(refa.astype(bool) & pred.astype(bool)))
        exp = {"DSC": Fraction(2 * I, X + Y), "IOU": Fraction(I, X + Y - I), "RVD": Fraction(Y - X, X)}
        for m, e in exp.items():
            ctx.count("evaluations")
            ctx.count("C06.large_checked")
            v = call(m, refa, pred) if i % 2 == 0 else call(m, refa, pred, 1, 1)
            if not pan.same(float(v), ref.f(e), abs_=1e-12):
                ctx.viol("value_differs_from_definition", {"metric": m, "got": pan.pyval(v), "expected": ref.f(e), "n": n, "dtype": str(refa.dtype)},
                         features={"metric": m, "large": True, "dtype": str(refa.dtype)})
        ctx.nontrivial("large", i, n)
