"""C12 -- class groups are evaluated independently and completely."""

from __future__ import annotations

import itertools

import numpy as np

from vf import gen, meta, monitors, pan

ID = "C12"
LEVEL = "exploration"
TECHNIQUE = "runtime monitoring: differential monitor comparing each group's result of the real grouped evaluate() with the same evaluator without groups on the restricted arrays; non-interference mutation of foreign voxels; rejection of undefined labels"
RULE = (
    "cases = (label alphabet of 2..6 labels, partition into <=3 named groups with kinds plain/merge/single-instance, input "
    "type, label-map pair): all set partitions with every legal kind assignment are enumerated for alphabets <= 4 and "
    "sampled beyond; each on generated maps where the groups touch and interleave; plus foreign-voxel mutation and "
    "undefined-label inputs (in prediction, reference, both). Non-trivial = a group holding instances on both sides; "
    "distinct = hash of (arrays, group definition, input type)."
    " Further families: group labels outside the arrays' dtype, labels congruent modulo 256 / 65536, duplicated labels in a definition, uint64 labels around 2^60, maps without background, sparse volumes beyond 2^18 / 2^20 / 2^22 voxels; two shards run under python -O."
)
ASSUMPTIONS = [
    "single-instance groups are compared with a matched-instance evaluator on the restricted arrays, only for configurations without a decision metric (statement-level ambiguity about the decision threshold, DESIGN.md rule 6)",
    "group names are lower-cased by the library; the comparison uses the names the evaluator itself reports",
]
MINIMUM = {"C12.groups_judged": 2000, "C12.undefined_label_judged": 100, "C12.noninterference_judged": 200}
BUDGET_S = {"quick": 1200, "thorough": 900}
SHARD_PYFLAGS = {3: ["-O"], 11: ["-O"]}  # the rejection of undefined labels must not depend on assert statements being compiled in


def set_partitions(items, max_blocks):
    if not items:
        yield []
        return
    first, rest = items[0], items[1:]
    for part in set_partitions(rest, max_blocks):
        for k in range(len(part)):
            yield part[:k] + [[first] + part[k]] + part[k + 1 :]
        if len(part) < max_blocks:
            yield part + [[first]]


def group_defs(k):
    labels = list(range(1, k + 1))
    out = []
    for part in set_partitions(labels, 3):
        kinds = [["plain", "merge"] + (["single"] if len(b) == 1 else []) for b in part]
        for combo in itertools.product(*kinds):
            out.append({f"G{j}_{c}": {"labels": b, "kind": "merge" if c == "merge" else "plain", "single": c == "single"} for j, (b, c) in enumerate(zip(part, combo))})
    return out


DEFS = {k: group_defs(k) for k in (2, 3, 4)}


def cases(tier, seed):
    reps = 4 if tier == "quick" else 24
    for k, defs in DEFS.items():
        for j in range(len(defs)):
            for rep in range(reps):
                yield {"fam": "enum", "k": k, "j": j, "rep": rep}
    for i in range(200 if tier == "quick" else 6000):
        yield {"fam": "sampled", "i": i}
    for i in range(200 if tier == "quick" else 2000):
        yield {"fam": "undefined", "i": i}
    for i in range(60 if tier == "quick" else 600):
        yield {"fam": "wide", "i": i}
    for i in range(36 if tier == "quick" else 360):
        yield {"fam": "huge", "i": i}
    for i in range(12 if tier == "quick" else 120):
        yield {"fam": "bigvol", "i": i}


def setup(ctx):
    monitors.install(ctx, set())


def restrict(arr, labels, binarise):
    out = np.where(np.isin(arr, labels), arr, 0).astype(arr.dtype)
    if binarise:
        out[out != 0] = 1
    return out


def label_map(seed, i, k, dtype, it):
    """maps over labels 1..k where groups touch and interleave"""
    r = gen.rng(seed, "c12map", i)
    ndim = int(r.choice((1, 2, 2, 3)))
    shape = {1: (int(r.integers(10, 30)),), 2: (int(r.integers(4, 9)), int(r.integers(4, 9))), 3: (3, int(r.integers(3, 6)), int(r.integers(3, 6)))}[ndim]
    out = []
    base = r.integers(0, k + 1, size=shape)
    # smooth a little: blocks
    for _ in range(2):
        a = np.zeros(shape, dtype=dtype)
        for _ in range(int(r.integers(2, 3 * k + 2))):
            a[gen._box(shape, r, 0.5)] = int(r.integers(1, k + 1))
        m = r.random(shape) < 0.15
        a[m] = base[m].astype(dtype)
        out.append(a)
    return out[0], out[1], r


def run_defs(ctx, gdef, k, idx, it):
    dtype = [np.uint8, np.uint16, np.int32][idx % 3] if it == "SEMANTIC" else [np.uint8, np.uint16][idx % 2]
    pred, refa, r = label_map(ctx.seed, idx, k, dtype, it)
    cfg = {
        "input": it, "backend": [None, "cc3d", "scipy"][idx % 3],
        "matcher": None if it == "MATCHED_INSTANCE" else {"kind": ["naive", "merge"][idx % 2], "metric": ["IOU", "DSC"][idx % 2], "thr": [0.5, 0.2][idx % 2], "m2o": False},
        "global": ["DSC", "IOU", "ASSD", "RVD"],
    }
    has_single = any(g["single"] for g in gdef.values())
    if idx % 4 == 0:
        # with a decision metric, the single-instance groups themselves are not judged (rule 6), the others are
        cfg.update(dm="IOU", dt=0.6)
    if idx % 3 == 2 and k <= 6:
        # label values that are congruent modulo 256 / 65536 to each other, in a wider dtype
        vals = [[26, 282, 538, 1050, 65562, 794], [7, 263, 65543, 519, 1031, 131079]][idx % 2][:k]
        wide = [np.uint16, np.int32, np.uint32][idx % 3] if max(vals) < 65536 else [np.int32, np.uint32][idx % 2]
        if it != "SEMANTIC" and np.dtype(wide).kind != "u":
            wide = np.uint32
        lut = np.array([0] + vals, dtype=wide)
        pred, refa = lut[pred.astype(np.int64)], lut[refa.astype(np.int64)]
        gdef = {n: dict(g, labels=[vals[l - 1] for l in g["labels"]]) for n, g in gdef.items()}
        ctx.count("f:C12.congruent_large_labels")
    gcfg = dict(cfg, groups=gdef)
    if idx % 5 == 0:
        # the same group definition written with a label listed twice (the set of labels is what counts)
        gcfg = dict(cfg, groups={n: dict(g, labels=list(g["labels"]) + [g["labels"][len(g["labels"]) // 2]]) for n, g in gdef.items()})
        ctx.count("f:C12.duplicate_label_in_definition")
    grouped = meta.run_all_groups(gcfg, pred, refa)
    ctx.count("evaluations")
    det = {"pred": pred, "ref": refa, "cfg": cfg, "groups": gdef}
    feats = {"input": it}
    if "ERR" in grouped:
        ctx.viol("grouped_evaluate_raised", dict(det, exc=grouped["ERR"]), features=dict(feats, dtype=str(pred.dtype), has_single=has_single))
        return
    for name, g in gdef.items():
        key = name.lower()
        if key not in grouped:
            ctx.viol("group_missing_from_result", dict(det, group=name, got=list(grouped)), features=feats)
            continue
        p2, r2 = restrict(pred, g["labels"], g["kind"] == "merge"), restrict(refa, g["labels"], g["kind"] == "merge")
        kind = "single" if g["single"] else g["kind"]
        if g["single"] and cfg.get("dm"):
            ctx.count("C12.skipped_single_instance_with_decision_metric")
            continue
        if g["single"] and it != "MATCHED_INSTANCE":
            ucfg = {"input": "MATCHED_INSTANCE", "matcher": None, "global": cfg["global"]}
            if p2.dtype.kind != "u":
                p2, r2 = p2.astype(np.uint32), r2.astype(np.uint32)
        else:
            ucfg = cfg
        single = meta.run(ucfg, p2, r2)
        ctx.count("evaluations")
        ctx.count("C12.groups_judged")
        ctx.count("f:C12.kind." + kind)
        d = meta.diff(grouped[key], single)
        if d is not None:
            ctx.viol("group_result_differs_from_restricted_evaluation", dict(det, group=name, key=d, grouped=grouped[key], restricted=single),
                     features=dict(feats, kind=kind, key=d.split(":")[0]))
        elif p2.any() and r2.any():
            ctx.nontrivial(gen.arr_key(pred, refa), gdef, it, name)
    # non-interference: change only voxels of the other groups
    names = list(gdef)
    if len(names) >= 2:
        a = names[idx % len(names)]
        foreign = [l for n, g in gdef.items() if n != a for l in g["labels"]]
        p3, r3 = pred.copy(), refa.copy()
        for arr in (p3, r3):
            m = np.isin(arr, foreign) & (r.random(arr.shape) < 0.5)
            arr[m] = r.choice(foreign + [0], size=int(m.sum())).astype(arr.dtype)
        # and put foreign labels on some background voxels
        for arr, other in ((p3, pred), (r3, refa)):
            m = (other == 0) & (r.random(arr.shape) < 0.2)
            arr[m] = r.choice(foreign, size=int(m.sum())).astype(arr.dtype)
        g3 = meta.run_all_groups(gcfg, p3, r3)
        ctx.count("evaluations")
        if "ERR" in g3:
            ctx.viol("grouped_evaluate_raised", dict(det, exc=g3["ERR"], mutated=True), features=feats)
        else:
            ctx.count("C12.noninterference_judged")
            d = meta.diff(grouped[a.lower()], g3[a.lower()])
            if d is not None:
                ctx.viol("foreign_voxels_influence_group", dict(det, group=a, key=d, mutated_pred=p3, mutated_ref=r3), features=dict(feats, key=d.split(":")[0]))
    if idx % 40 == 0:
        ctx.sample({"input": it, "groups": gdef, "pred": pred if pred.size < 40 else "(%s)" % (pred.shape,), "tp": {k2: v["tp"] for k2, v in grouped.items()}})


def wide_labels(ctx, i):
    """group labels that do not fit the arrays' dtype (e.g. 260 with uint8 maps): such a group is simply empty,
    and no voxel of another group may leak into it"""
    r = gen.rng(ctx.seed, "c12w", i)
    it = ["UNMATCHED_INSTANCE", "SEMANTIC", "MATCHED_INSTANCE"][i % 3]
    pred, refa, _ = label_map(ctx.seed, 9000 + i, 4, np.uint8, it)
    big = [260, 257, 256 + 3, 512 + 2][i % 4]  # wraps onto 4, 1, 3, 2 if cast to uint8
    gdef = {"small": {"labels": [1, 2, 3, 4], "kind": ["plain", "merge"][i % 2], "single": False},
            "wide": {"labels": [big, big + 256], "kind": ["plain", "merge"][(i // 2) % 2], "single": False}}
    cfg = {"input": it, "matcher": None if it == "MATCHED_INSTANCE" else {"kind": "naive", "metric": "IOU", "thr": 0.5}, "groups": gdef, "global": ["DSC"]}
    res = meta.run_all_groups(cfg, pred, refa)
    ctx.count("evaluations")
    ctx.count("f:C12.group_label_outside_dtype")
    det = {"pred": pred, "ref": refa, "groups": gdef, "cfg": cfg}
    if "ERR" in res:
        ctx.viol("grouped_evaluate_raised", dict(det, exc=res["ERR"]), features={"input": it, "wide_labels": True})
        return
    ctx.count("C12.groups_judged")
    ctx.nontrivial("wide", gen.arr_key(pred, refa), big, it)
    w = res["wide"]
    if w["num_ref_instances"] != 0 or w["num_pred_instances"] != 0 or w["tp"] != 0:
        ctx.viol("group_result_differs_from_restricted_evaluation", dict(det, group="wide", result={k: w[k] for k in ("num_ref_instances", "num_pred_instances", "tp")}),
                 features={"input": it, "kind": "plain", "wide_labels": True})


def huge_labels(ctx, i):
    """uint64 maps with label values around 2^60: an undefined label one above a defined one must be rejected"""
    r = gen.rng(ctx.seed, "c12h", i)
    it = ["SEMANTIC", "MATCHED_INSTANCE"][i % 2]
    base = 2**60
    step = [2, 1000, 4096, 3][i % 4]  # densely and widely spaced ids (membership tests switch algorithm with the range)
    defined = [base + step * j for j in range(13)]
    gdef = {"low": {"labels": defined[:6], "kind": "plain", "single": False}, "high": {"labels": defined[6:], "kind": ["plain", "merge"][i % 2], "single": False}}
    pred = np.zeros((4, 6), dtype=np.uint64)
    refa = np.zeros((4, 6), dtype=np.uint64)
    for arr in (pred, refa):
        for _ in range(4):
            arr[gen._box(arr.shape, r, 0.5)] = defined[int(r.integers(0, 13))]
    cfg = {"input": it, "backend": "scipy", "matcher": None if it == "MATCHED_INSTANCE" else {"kind": "naive", "metric": "IOU", "thr": 0.5}, "groups": gdef, "global": ["DSC"]}
    ok = meta.run_all_groups(cfg, pred, refa)
    ctx.count("evaluations")
    if "ERR" in ok:
        ctx.viol("grouped_evaluate_raised", {"pred": pred, "ref": refa, "groups": gdef, "exc": ok["ERR"]}, features={"input": it, "huge_labels": True})
        return
    bad = base + 1 + step * int(r.integers(0, 12))
    where = ["pred", "ref", "both"][i % 3]
    for arr, name in ((pred, "pred"), (refa, "ref")):
        if where in (name, "both"):
            arr[tuple(int(r.integers(0, s)) for s in arr.shape)] = bad
    res = meta.run_all_groups(cfg, pred, refa)
    ctx.count("evaluations")
    ctx.count("C12.undefined_label_judged")
    ctx.count("f:C12.huge_uint64_labels")
    ctx.nontrivial("huge", i, bad)
    if "ERR" not in res:
        ctx.viol("undefined_label_accepted", {"pred": pred, "ref": refa, "groups": gdef, "undefined_label": bad, "where": where, "input": it}, features={"input": it, "where": where, "huge_labels": True})


def big_volume(ctx, i):
    """sparse volumes beyond 2^18 / 2^20 / 2^22 voxels whose groups have instances in the first and in the last voxels"""
    pred, refa = gen.big_volume_pair(ctx.seed, i, ctx.tier)
    it = ["UNMATCHED_INSTANCE", "MATCHED_INSTANCE", "SEMANTIC"][i % 3]
    r = gen.rng(ctx.seed, "c12big", i)
    if it == "MATCHED_INSTANCE":
        pred = gen.make_matched(pred, refa, r)
    split = [[1, 4, 7], [2, 3, 5, 6]] if i % 2 else [[3, 5], [1, 2], [4, 6, 7]]
    labels = sorted(set(int(x) for x in np.unique(pred)) | set(int(x) for x in np.unique(refa))) 
    gdef = {}
    for j, b in enumerate(split):
        gdef[f"G{j}"] = {"labels": b, "kind": ["plain", "merge"][(i + j) % 2] if it == "SEMANTIC" or (i + j) % 4 == 3 else "plain", "single": False}
    known = {l for b in split for l in b}
    extra = [l for l in labels if l and l not in known]
    if extra:
        gdef["G0"]["labels"] = gdef["G0"]["labels"] + extra
    cfg = {"input": it, "backend": [None, "cc3d", "scipy"][i % 3],
           "matcher": None if it == "MATCHED_INSTANCE" else {"kind": "naive", "metric": "IOU", "thr": 0.3, "m2o": False}, "global": ["DSC", "IOU"]}
    grouped = meta.run_all_groups(dict(cfg, groups=gdef), pred, refa)
    ctx.count("evaluations")
    ctx.count("f:C12.big_sparse_volume")
    det = {"pred": "big_volume_pair(%d)" % i, "shape": list(pred.shape), "cfg": cfg, "groups": gdef}
    if "ERR" in grouped:
        ctx.viol("grouped_evaluate_raised", dict(det, exc=grouped["ERR"]), features={"input": it, "big_volume": True})
        return
    for name, g in gdef.items():
        p2, r2 = restrict(pred, g["labels"], g["kind"] == "merge"), restrict(refa, g["labels"], g["kind"] == "merge")
        single = meta.run(cfg, p2, r2)
        ctx.count("evaluations")
        ctx.count("C12.groups_judged")
        d = meta.diff(grouped[name.lower()], single)
        if d is not None:
            ctx.viol("group_result_differs_from_restricted_evaluation", dict(det, group=name, key=d, grouped=grouped[name.lower()], restricted=single),
                     features={"input": it, "kind": g["kind"], "key": d.split(":")[0], "big_volume": True})
        else:
            ctx.nontrivial("big", i, name, it)


def run(case, ctx):
    fam = case["fam"]
    if fam == "bigvol":
        return big_volume(ctx, case["i"])
    if fam == "huge":
        return huge_labels(ctx, case["i"])
    if fam == "wide":
        return wide_labels(ctx, case["i"])
    if fam == "enum":
        k, j, rep = case["k"], case["j"], case["rep"]
        gdef = DEFS[k][j]
        for n, it in enumerate(("UNMATCHED_INSTANCE", "SEMANTIC", "MATCHED_INSTANCE")):
            run_defs(ctx, gdef, k, (j * 3 + n) * 13 + rep * 7 + k, it)
        return
    if fam == "sampled":
        i = case["i"]
        r = gen.rng(ctx.seed, "c12s", i)
        k = int(r.integers(5, 7))
        labels = list(range(1, k + 1))
        r.shuffle(labels)
        nb = int(r.integers(1, 4))
        cuts = sorted(set(int(x) for x in r.integers(1, k, size=nb - 1))) if nb > 1 else []
        blocks = [labels[a:b] for a, b in zip([0] + cuts, cuts + [k])]
        gdef = {}
        names = ["Alpha-Beta", "lower_case", "With Space", "x"]
        for j, b in enumerate(blocks):
            c = str(r.choice(["plain", "merge"] + (["single"] if len(b) == 1 else [])))
            gdef[names[j]] = {"labels": [int(x) for x in b], "kind": "merge" if c == "merge" else "plain", "single": c == "single"}
        run_defs(ctx, gdef, k, 1000 + i, ["UNMATCHED_INSTANCE", "SEMANTIC", "MATCHED_INSTANCE"][i % 3])
        return
    # undefined labels must be rejected
    i = case["i"]
    r = gen.rng(ctx.seed, "c12u", i)
    k = int(r.integers(2, 5))
    gdef = DEFS[k][int(r.integers(0, len(DEFS[k])))]
    it = ["UNMATCHED_INSTANCE", "SEMANTIC", "MATCHED_INSTANCE"][i % 3]
    pred, refa, _ = label_map(ctx.seed, 5000 + i, k, np.uint8, it)
    bad = int(r.choice([k + 1, k + 7, 200, 255]))
    where = ["pred", "ref", "both"][(i // 3) % 3]
    full = i % 4 == 1  # no background voxel at all; the undefined label is then the smallest value in the map
    if full:
        gdef = {n: dict(g, labels=[l + 1 for l in g["labels"]]) for n, g in gdef.items()}  # groups use labels 2..k+1
        pred, refa = pred + 1, refa + 1  # every voxel labelled; label 1 belongs to no group
        bad = 1
        ctx.count("f:C12.undefined_label_in_map_without_background")
    for arr, name in ((pred, "pred"), (refa, "ref")):
        if where in (name, "both"):
            n = int(r.integers(1, 4))
            for _ in range(n):
                arr[tuple(int(r.integers(0, s)) for s in arr.shape)] = bad
        elif full:
            arr[arr == 1] = 2
    cfg = {"input": it, "matcher": None if it == "MATCHED_INSTANCE" else {"kind": "naive", "metric": "IOU", "thr": 0.5}, "groups": gdef}
    res = meta.run_all_groups(cfg, pred, refa)
    ctx.count("evaluations")
    ctx.count("C12.undefined_label_judged")
    ctx.nontrivial("undef", gen.arr_key(pred, refa), gdef, it)
    if "ERR" not in res:
        ctx.viol("undefined_label_accepted", {"pred": pred, "ref": refa, "groups": gdef, "undefined_label": bad, "where": where, "input": it},
                 features={"input": it, "where": where})
