"""C16 -- concurrent aggregation records every subject exactly once, intact."""

from __future__ import annotations

import csv
import json
import multiprocessing
import os
import shutil
import sys
import tempfile
import threading
import time

import numpy as np

from vf import gen, pan

ID = "C16"
LEVEL = "exploration"
TECHNIQUE = "runtime monitoring: event log on traced locks/file operations of the real aggregator + controlled scheduling (seeded random walk, PCT, preemption-bounded systematic search) on threads and noise injection on threads / forked processes; offline history checker (exactly-once rows, intact rows, sequential values, no logical deadlock, snapshot consistency); fork-safety monitor on every threading lock the package creates (holder tracked across fork, witness written by a worker that waits for a lock whose holder does not exist in it)"
RULE = (
    "cases = schedules of short histories: 2..4 workers x 1..3 calls (evaluate with distinct and colliding subject names, "
    "make_statistic) on one shared aggregator. Controlled scheduler on threads: seeded random walk, PCT with d in {1,2,3}, "
    "preemption-bounded systematic search (2 workers bound 2, 3 workers bound 1; thorough also 3 workers bound 2 and 4 workers bound 1, up to 8000 schedules per history), and the same random/PCT strategies with every source line of the aggregator / statistics modules and of shutil as an additional scheduling point (sys.monitoring); noise mode (random sleeps at scheduling "
    "points between critical sections) on threads and on forked processes (multiprocessing.Process and NonDaemonicPool as in "
    "the example script), with and without split-write injection. Every subject has its own input, so a row identifies the "
    "evaluation that produced it. Non-trivial = schedule with at least one context switch between two workers' operations; "
    "distinct = distinct hash of the sequence of (worker, operation, object) -- i.e. distinct interleavings."
    ' Further families: threads interleaved at source-line level inside the shared evaluator (five evaluator profiles), evaluations that raise inside a history, process histories in fresh interpreters and on a simulated file system with 2-second modification times, a parent statistic before and after rows are added by forked workers / a second aggregator object / threads; threads whose evaluations fork the real worker pools while other threads are inside the package, with a fork-safety monitor on every threading lock the package creates (a forked worker waiting for a lock whose holder does not exist in it).'
)
ASSUMPTIONS = [
    "a write() may be split into two raw writes (legal OS behaviour for rows larger than the buffer) -- only used to make missing mutual exclusion observable; never a violation on its own under the locks",
    "make_statistic raising on a file without any complete row is accepted (the statement is silent about an empty table)",
    "the evaluator inside uses the serial pool substitute",
]
MINIMUM = {"C16.fork_histories_judged": 3, "C16.line_level_schedules": 50, "C16.schedules_judged": 600, "C16.process_histories_judged": 10, "C16.snapshots_judged": 100, "C16.collisions_exercised": 100}
BUDGET_S = {"quick": 1200, "thorough": 900}
SHARDS = {"quick": 16, "thorough": 900}

CFG = {"input": "UNMATCHED_INSTANCE", "matcher": {"kind": "naive", "metric": "IOU", "thr": 0.5}, "metrics": ["DSC", "IOU", "RVD"], "global": ["DSC"]}
NAMES = ["s0", "s1", "s2", "s3", "s4", "s5"]
# profiles for the family that also interleaves threads INSIDE the shared evaluator (each row must still carry the
# values of a sequential run): inputs of different dimensionality with corner contacts, stateful-looking components
EVAL_PROFILES = [
    {"input": "SEMANTIC", "backend": None, "matcher": {"kind": "naive", "metric": "IOU", "thr": 0.3}, "metrics": ["DSC", "IOU", "RVD"], "global": ["DSC"]},
    {"input": "UNMATCHED_INSTANCE", "matcher": {"kind": "merge", "metric": "IOU", "thr": 0.3}, "metrics": ["DSC", "IOU", "RVD"], "global": ["DSC"]},
    {"input": "UNMATCHED_INSTANCE", "matcher": {"kind": "naive", "metric": "DSC", "thr": 0.3, "m2o": True}, "metrics": ["DSC", "IOU", "RVD"], "global": ["IOU"]},
    {"input": "UNMATCHED_INSTANCE", "matcher": {"kind": "naive", "metric": "IOU", "thr": 0.3}, "metrics": ["ASSD", "IOU"], "global": []},
    {"input": "UNMATCHED_INSTANCE", "matcher": {"kind": "merge", "metric": "DSC", "thr": 0.5}, "metrics": ["ASSD", "DSC", "RVD"], "global": ["IOU"]},
]
PROFILE = {"cfg": CFG, "idx": None}


def cases(tier, seed):
    n = 110 if tier == "quick" else 4000
    for i in range(n):
        yield {"fam": "controlled", "i": i}
    for i in range(16 if tier == "quick" else 96):
        yield {"fam": "dfs", "i": i}
    for i in range(128 if tier == "quick" else 2400):
        yield {"fam": "lines", "i": i}
    for i in range(48 if tier == "quick" else 960):
        yield {"fam": "lines_eval", "i": i}
    for i in range(48 if tier == "quick" else 1200):
        yield {"fam": "noise_threads", "i": i}
    for i in range(32 if tier == "quick" else 1200):
        yield {"fam": "processes", "i": i}
    for i in range(8 if tier == "quick" else 96):
        yield {"fam": "processes_fresh", "i": i}
    for i in range(8 if tier == "quick" else 96):
        yield {"fam": "parent_stat", "i": i}
    for i in range(6 if tier == "quick" else 120):
        yield {"fam": "fork_threads", "i": i}


def setup(ctx):
    from vf import sched

    sched.install()
    sys.stdout = open(os.devnull, "w")
    ctx._expected = None


def subject_input(name):
    k = NAMES.index(name)
    if PROFILE["idx"] is not None:
        if PROFILE["cfg"]["input"] == "SEMANTIC":
            # 2-D and 3-D inputs in turn, components touching only at corners, fragments and unmatched predictions
            shape = (6, 7) if k % 2 == 0 else (3, 5, 5)
            refa = np.zeros(shape, dtype=np.uint8)
            pred = np.zeros(shape, dtype=np.uint8)
            if k % 2 == 0:
                refa[0, 0] = refa[1, 1] = refa[2, 2] = 1
                refa[4, 2:6] = 1
                pred[0, 0] = pred[1, 1] = 1
                pred[4, 2 : 4 + k // 2] = 1
                pred[4, 5] = 1
                pred[2, 5 - k // 2] = 1
            else:
                refa[0, 0, 0] = refa[1, 1, 1] = refa[2, 2, 2] = 1
                refa[2, 0, 1:5] = 1
                pred[0, 0, 0] = pred[1, 1, 1] = 1
                pred[2, 0, 1 : 3 + k // 2] = 1
                pred[2, 0, 4] = 1
                pred[0, 4, k // 2] = 1
            return pred, refa
        # same shape and same reference for every subject, so instance crops have equal shapes; the prediction's
        # labels are a different permutation per subject (overlapping label sets, different assignments), bars of
        # subject-specific length and offset, a fragment for the merge matcher and an unmatched prediction
        import itertools

        perm = list(itertools.permutations((1, 2, 3)))[k]
        shape = (8, 9) if PROFILE["idx"] % 2 else (2, 8, 9)
        refa = np.zeros(shape, dtype=np.uint8)
        pred = np.zeros(shape, dtype=np.uint8)
        rv, pv = (refa, pred) if len(shape) == 2 else (refa[1], pred[1])
        for j in range(3):
            rv[1 + 2 * j, 1:8] = j + 1
            a = 1 + (k + j) % 3
            b = a + 3 + (k + 2 * j) % 3
            pv[1 + 2 * j, a:b] = perm[j]
        pv[1 + 2 * (k % 3), 7] = 4  # fragment of one reference bar, own label
        pv[7, 2 + k] = 5  # touches no reference
        return pred, refa
    refa = np.zeros(16, dtype=np.uint8)
    pred = np.zeros(16, dtype=np.uint8)
    refa[1 : 5 + k] = 1
    pred[2 : 5 + k] = 1
    refa[12:15] = 2
    pred[12 : 13 + (k % 3)] = 2
    return pred, refa


def read_rows(path):
    with open(path, "r", encoding="utf8", newline="") as fh:
        return [row for row in csv.reader(fh, delimiter="\t", lineterminator="\n")]


def expected_rows(ctx):
    """rows a sequential run produces, per subject name"""
    if PROFILE["idx"] is not None:
        cache = ctx.__dict__.setdefault("_expected_profiles", {})
        if PROFILE["idx"] not in cache:
            from panoptica import Panoptica_Aggregator
            from vf import sched

            mode = sched.T.mode
            sched.T.mode = "off"
            d = tempfile.mkdtemp(prefix="c16e_", dir=os.environ.get("VERIF_TMP"))
            p = os.path.join(d, "seq.tsv")
            agg = Panoptica_Aggregator(pan.make_evaluator(PROFILE["cfg"]), p)
            for n in NAMES:
                agg.evaluate(*subject_input(n), n)
            rows = read_rows(p)
            cache[PROFILE["idx"]] = (rows[0], {r[0]: r for r in rows[1:]})
            sched.T.mode = mode
        return cache[PROFILE["idx"]]
    if ctx._expected is None:
        from panoptica import Panoptica_Aggregator
        from vf import sched

        sched.reset("off")
        d = tempfile.mkdtemp(prefix="c16e_", dir=os.environ.get("VERIF_TMP"))
        p = os.path.join(d, "seq.tsv")
        agg = Panoptica_Aggregator(pan.make_evaluator(CFG), p)
        for n in NAMES:
            agg.evaluate(*subject_input(n), n)
        rows = read_rows(p)
        ctx._expected = (rows[0], {r[0]: r for r in rows[1:]})
    return ctx._expected


def make_history(r, force_workers=None):
    nw = force_workers or int(r.integers(2, 5))
    pool = NAMES[: int(r.integers(2, 5))]
    hist = {}
    for w in range(nw):
        calls = []
        for _ in range(int(r.integers(1, 4))):
            x = r.random()
            if x < 0.2:
                calls.append(["stat"])
            elif x < 0.3:
                calls.append(["eval", "bad%d" % int(r.integers(0, 2))])  # invalid input: the evaluation raises (sequentially too)
            else:
                calls.append(["eval", str(r.choice(pool))])
        hist[f"w{w}"] = calls
    return hist


def new_aggregator(d, trace_eval=False, continue_file=True):
    from panoptica import Panoptica_Aggregator
    from vf import sched

    ev = pan.make_evaluator(PROFILE["cfg"])
    path = os.path.join(d, "out.tsv")
    agg = Panoptica_Aggregator(ev, path) if continue_file else Panoptica_Aggregator(ev, path, continue_file=False)
    if trace_eval:  # the evaluation between the two critical sections is a scheduling point too
        real = ev.evaluate

        def traced(*a, **k):
            sched.point("eval_begin", "evaluator")
            out = real(*a, **k)
            sched.after("eval_end", "evaluator")
            return out

        ev.evaluate = traced
    return agg, ev, path


def do_call(agg, call, results, w, k):
    from vf import sched

    sched.emit("call_begin", call[0], {"name": call[1] if len(call) > 1 else None, "k": k})
    try:
        if call[0] == "eval" and call[1].startswith("bad"):
            try:
                agg.evaluate(np.zeros(5, dtype=np.uint8), np.zeros(7, dtype=np.uint8), call[1])  # shapes differ
                results.append({"w": w, "k": k, "call": call, "ok": True, "invalid_input_accepted": True})
            except sched.Deadlock:
                raise
            except Exception as e:  # noqa: BLE001  (expected: invalid input is rejected)
                results.append({"w": w, "k": k, "call": call, "ok": True, "rejected": type(e).__name__})
        elif call[0] == "eval":
            agg.evaluate(*subject_input(call[1]), call[1])
            results.append({"w": w, "k": k, "call": call, "ok": True})
        else:
            try:
                st = agg.make_statistic()
                snap = {s: st.get_one_subject(s) for s in st.subjectnames}
                results.append({"w": w, "k": k, "call": call, "ok": True, "snapshot": snap})
            except sched.Deadlock:
                raise
            except Exception as e:  # noqa: BLE001
                results.append({"w": w, "k": k, "call": call, "ok": False, "stat_exc": type(e).__name__ + ": " + repr(e)[:200]})
    except sched.Deadlock:
        raise
    except BaseException as e:  # noqa: BLE001
        results.append({"w": w, "k": k, "call": call, "ok": False, "exc": type(e).__name__ + ": " + repr(e)[:300]})
    finally:
        sched.emit("call_end", call[0], {"name": call[1] if len(call) > 1 else None, "k": k}, phase="after")


# ------------------------------------------------------------------------------------- oracle
def check_history(ctx, hist, path, events, results, det, feats, order_key="seq"):
    header, exp = expected_rows(ctx)
    submitted = sorted({c[1] for calls in hist.values() for c in calls if c[0] == "eval" and not c[1].startswith("bad")})
    n_sub = sum(1 for calls in hist.values() for c in calls if c[0] == "eval" and not c[1].startswith("bad"))
    if any(c[0] == "eval" and c[1].startswith("bad") for calls in hist.values() for c in calls):
        ctx.count("C16.histories_with_a_failing_evaluation")
    if n_sub > len(submitted):
        ctx.count("C16.collisions_exercised", n_sub - len(submitted))

    def bad(kind, **extra):
        ctx.viol(kind, dict(det, **extra), features=dict(feats, kind=kind))
        return False

    for r in results:
        if not r["ok"] and "exc" in r:
            return bad("call_raised", call=r["call"], exc=r["exc"], worker=r["w"])
    try:
        rows = read_rows(path)
    except Exception as e:  # noqa: BLE001
        return bad("output_file_unreadable", exc=repr(e)[:200])
    if not rows or rows[0] != header:
        return bad("header_missing_or_not_first", first_row=rows[0] if rows else None)
    data = rows[1:]
    if any(r == header for r in data):
        return bad("header_duplicated", rows=data)
    names = [r[0] if r else None for r in data]
    for n in submitted:
        c = names.count(n)
        if c == 0:
            return bad("submitted_subject_without_row", subject=n, rows=names)
        if c > 1:
            return bad("subject_recorded_more_than_once", subject=n, rows=names)
    for r in data:
        if r and r[0].startswith("bad"):
            return bad("row_for_a_submission_whose_evaluation_failed", row=r)
        if len(r) != len(header) or r[0] not in exp:
            return bad("torn_or_foreign_row", row=r, expected_columns=len(header))
        if r[0] not in submitted:
            return bad("row_for_subject_never_submitted", row=r)
        if r != exp[r[0]]:
            return bad("row_values_differ_from_sequential_run", row=r, expected=exp[r[0]])
    # event history: exactly one claim and one row write per distinct name
    evs = sorted(events, key=lambda e: e[order_key])
    claims, rowwrites, row_done = {}, {}, {}
    out_name = os.path.basename(path)
    pending_row = {}
    for e in evs:
        if e["op"] == "write" and e["obj"] == "panoptica_aggregator_tmp.tsv" or (e["op"] == "write" and (e["obj"].endswith("_tmp.tsv") or e["obj"].endswith(".panoptica_aggregator_tmp"))):
            n = e["info"]["data"].split("\t")[0].strip()
            claims[n] = claims.get(n, 0) + 1
        elif e["op"] == "write" and e["obj"] == out_name:
            n = e["info"]["data"].split("\t")[0].strip()
            if n not in exp:  # the header written by the constructor
                continue
            rowwrites[n] = rowwrites.get(n, 0) + 1
            pending_row[(e["pid"], e["w"])] = n
        elif e["op"] == "closed" and e["obj"] == out_name and (e["pid"], e["w"]) in pending_row:
            row_done[pending_row.pop((e["pid"], e["w"]))] = e[order_key]
    # how the implementation gets there (claim file, number of write calls) is not part of the property: the
    # event counts are reported as information only; the verdict is on the file and the snapshots
    for n in submitted:
        if claims.get(n, 0) != 1:
            ctx.count("C16.info.claim_events_not_exactly_one")
        if rowwrites.get(n, 0) != 1:
            ctx.count("C16.info.row_write_events_not_exactly_one")
    # statistics snapshots reflect only complete rows
    begin = {(e["pid"], e["w"], e["info"]["k"]): e[order_key] for e in evs if e["op"] == "call_begin"}
    end = {(e["pid"], e["w"], e["info"]["k"]): e[order_key] for e in evs if e["op"] == "call_end"}
    eval_calls = {}
    for e in evs:
        if e["op"] == "call_begin" and e["obj"] == "eval" and not str(e["info"]["name"]).startswith("bad"):
            k_ = (e["pid"], e["w"], e["info"]["k"])
            eval_calls.setdefault(e["info"]["name"], []).append((e[order_key], end.get(k_)))
    events_cover_rows = set(row_done) == set(names) and len(names) > 0
    for r in results:
        if r["call"][0] != "stat":
            continue
        key = next((k for k in begin if k[1] == r["w"] and k[2] == r["k"]), None)
        if key is None or key not in end:
            continue
        t0, t1 = begin[key], end[key]
        # boundary-level knowledge (independent of how rows are written): a row is certainly complete when every
        # evaluate call for that name has returned; it can only exist once some evaluate call for it has begun
        before = {n for n, cs_ in eval_calls.items() if cs_ and all(e_ is not None and e_ < t0 for _, e_ in cs_)}
        until = {n for n, cs_ in eval_calls.items() if any(b_ < t1 for b_, _ in cs_)}
        if events_cover_rows:  # every row of the final file was seen being written and closed: tighter bounds
            before |= {n for n, t in row_done.items() if t < t0}
            until = {n for n, t in row_done.items() if t < t1}
        ctx.count("C16.snapshots_judged")
        if not r["ok"]:
            if before:
                return bad("make_statistic_raised_although_rows_were_complete", exc=r.get("stat_exc"), complete_before=sorted(before))
            ctx.count("C16.stat_raised_on_empty_table")
            continue
        snap = r["snapshot"]
        if not before <= set(snap):
            return bad("snapshot_misses_a_row_complete_before_the_call", snapshot=sorted(snap), complete_before=sorted(before))
        if not set(snap) <= until:
            return bad("snapshot_shows_incomplete_row", snapshot=sorted(snap), complete_until_return=sorted(until))
        for n, vals in snap.items():
            want = exp[n]
            flat = [vals[g][m] for g in vals for m in vals[g]]
            wantv = [None if c == "" else float(c) for c in want[1:]]
            wantv = [None if (v is not None and (v != v or v in (float("inf"), float("-inf")))) else v for v in wantv]
            if len(flat) != len(wantv) or any(not pan.same(a, b) for a, b in zip(flat, wantv)):
                return bad("snapshot_values_differ_from_sequential_run", subject=n, got=flat, expected=wantv)
    return True


# ------------------------------------------------------------------------------------- controlled schedules
def run_controlled(ctx, hist, strategy_factory, tag, split, det0):
    from vf import sched

    d = tempfile.mkdtemp(prefix="c16c_", dir=os.environ.get("VERIF_TMP"))
    sched.watch_directory(d)
    sched.reset("log", split_writes=split)
    agg, ev, path = new_aggregator(d, trace_eval=True)
    results = []
    cs = sched.Controlled(strategy_factory(sorted(hist)))
    sched.T.sched = cs
    sched.T.mode = "controlled"

    def mk(w, calls):
        def fn():
            for k, c in enumerate(calls):
                do_call(agg, c, results, w, k)

        return fn

    outcome = cs.run({w: mk(w, calls) for w, calls in hist.items()})
    sched.T.mode = "off"
    events = list(sched.T.events)
    ctx.count("evaluations")
    feats = {"mode": "controlled", "strategy": tag, "split_writes": split}
    det = dict(det0, history=hist, strategy=tag, schedule=[c for _, c in cs.choices], trace=cs.trace[-80:], split_writes=split)
    if outcome == "watchdog":
        ctx.count("C16.inconclusive_watchdog")
        return None
    if outcome == "deadlock":
        ctx.viol("logical_deadlock", dict(det, blocked=cs.deadlock, lock_owners=cs.owner), features=dict(feats, kind="logical_deadlock"))
        return cs
    if cs.errors:
        ctx.viol("call_raised", dict(det, errors=cs.errors), features=dict(feats, kind="call_raised"))
        return cs
    ctx.count("C16.schedules_judged")
    ctx.count("C16.events", len(events))
    ctx.count("C16.lock_acquisitions", sum(1 for e in events if e["op"] == "acquired"))
    if cs.untraced:
        ctx.count("C16.untraced_lock_blocks", len(cs.untraced))
    ok = check_history(ctx, hist, path, events, results, det, feats)
    switches = sum(1 for a, b in zip(cs.trace, cs.trace[1:]) if a[0] != b[0])
    if switches:
        ctx.nontrivial(sched.interleaving_hash(cs.trace), json.dumps(hist, sort_keys=True))
    return cs


def run_noise_threads(ctx, hist, r, split, det0):
    from vf import sched

    d = tempfile.mkdtemp(prefix="c16n_", dir=os.environ.get("VERIF_TMP"))
    sched.reset("log", split_writes=split)
    agg, ev, path = new_aggregator(d, trace_eval=True)
    sched.T.rng = np.random.default_rng(int(r.integers(0, 2**31)))
    sched.T.mode = "noise"
    results = []
    threads = []

    def body(w, calls):
        sched.T.worker_of[threading.get_ident()] = w
        for k, c in enumerate(calls):
            do_call(agg, c, results, w, k)

    for w, calls in hist.items():
        t = threading.Thread(target=body, args=(w, calls), daemon=True)
        threads.append(t)
    for t in threads:
        t.start()
    stuck = False
    for t in threads:
        t.join(60)
        stuck = stuck or t.is_alive()
    sched.T.mode = "off"
    events = list(sched.T.events)
    ctx.count("evaluations")
    feats = {"mode": "noise_threads", "split_writes": split}
    det = dict(det0, history=hist, split_writes=split)
    if stuck:
        # wall-clock is never a verdict: a deadlock is reported only if every worker that has not returned is
        # waiting for a lock (its last event is an 'acquire' that never completed); otherwise inconclusive
        last = {}
        for e in events:
            if e["w"] != "main":
                last[e["w"]] = e
        alive = [w for w in hist if not any(e["op"] == "call_end" and e["w"] == w and e["info"]["k"] == len(hist[w]) - 1 for e in events)]
        if alive and all(last.get(w, {}).get("op") == "acquire" for w in alive):
            ctx.viol("call_never_returned", dict(det, waiting={w: last[w]["obj"] for w in alive}, last_events=events[-10:]), features=dict(feats, kind="call_never_returned"))
        else:
            ctx.count("C16.inconclusive_watchdog")
        return
    ctx.count("C16.schedules_judged")
    ctx.count("C16.noise_thread_histories_judged")
    ctx.count("C16.events", len(events))
    check_history(ctx, hist, path, events, results, det, feats, order_key="t")
    tr = [(e["w"], e["op"], e["obj"]) for e in sorted(events, key=lambda e: e["t"]) if e["phase"] == "before" and e["w"] != "main"]
    if any(a[0] != b[0] for a, b in zip(tr, tr[1:])):
        ctx.nontrivial(sched.interleaving_hash(tr), json.dumps(hist, sort_keys=True))


def child_main(agg, w, calls, evdir, seed, split):
    from vf import sched

    sched.T.events = []
    sched.T.event_file = open(os.path.join(evdir, f"ev_{os.getpid()}.jsonl"), "a")
    sched.T.rng = np.random.default_rng(seed)
    sched.T.split_writes = split
    sched.T.worker_of = {threading.get_ident(): w}
    sched.T.mode = "noise"
    results = []
    for k, c in enumerate(calls):
        do_call(agg, c, results, w, k)
    with open(os.path.join(evdir, f"res_{w}.json"), "w") as fh:
        json.dump(results, fh)
    sched.T.event_file.flush()
    os._exit(0)


def pool_call(agg, evdir, seed, split, pred, refa, name):
    """what NonDaemonicPool.starmap runs in a worker (as in the example script)"""
    from vf import sched

    if sched.T.event_file is None:
        sched.T.event_file = open(os.path.join(evdir, f"ev_{os.getpid()}.jsonl"), "a")
        sched.T.rng = np.random.default_rng(seed + os.getpid())
        sched.T.split_writes = split
        sched.T.mode = "noise"
    sched.T.worker_of[threading.get_ident()] = f"p{os.getpid()}"
    agg.evaluate(pred, refa, name)
    return name


def _plain_worker(agg, names):
    sys.stdout = open(os.devnull, "w")
    for n in names:
        agg.evaluate(*subject_input(n), n)
    os._exit(0)


def run_parent_statistic(ctx, i, r, det0):
    """the parent evaluates one subject and builds a statistic (which succeeds: there is a row), then forked workers /
    a second aggregator object on the same file add rows, then the parent asks again: a statistics object built at any
    moment reflects the complete rows of that moment"""
    from panoptica import Panoptica_Aggregator
    from vf import sched

    sched.reset("off")
    d = tempfile.mkdtemp(prefix="c16s_", dir=os.environ.get("VERIF_TMP"))
    agg, ev, path = new_aggregator(d)
    names = [str(x) for x in r.permutation(NAMES)]
    first, rest = names[0], names[1 : 1 + int(r.integers(2, 5))]
    det = dict(det0, first=first, others=rest, mode=["processes", "second_object", "threads"][i % 3])
    feats = {"mode": "parent_statistic_" + det["mode"], "kind": "snapshot_misses_a_row_complete_before_the_call"}
    ctx.count("evaluations")
    try:
        agg.evaluate(*subject_input(first), first)
        st1 = agg.make_statistic()
        if set(st1.subjectnames) != {first}:
            ctx.viol("snapshot_misses_a_row_complete_before_the_call", dict(det, snapshot=sorted(st1.subjectnames), complete_before=[first]), features=feats)
            return
        if i % 3 == 0:
            half = [rest[0::2], rest[1::2]]
            procs = [multiprocessing.Process(target=_plain_worker, args=(agg, h)) for h in half if h]
            for p in procs:
                p.start()
            for p in procs:
                p.join(120)
            if any(p.is_alive() for p in procs):
                for p in procs:
                    p.kill()
                ctx.count("C16.inconclusive_watchdog")
                return
        elif i % 3 == 1:
            other = Panoptica_Aggregator(ev, path)
            for n in rest:
                other.evaluate(*subject_input(n), n)
        else:
            ts = [threading.Thread(target=lambda n=n: agg.evaluate(*subject_input(n), n)) for n in rest]
            for t in ts:
                t.start()
            for t in ts:
                t.join(120)
        st2 = agg.make_statistic()
    except Exception as e:  # noqa: BLE001
        ctx.viol("call_raised", dict(det, exc=repr(e)[:300]), features=dict(feats, kind="call_raised"))
        return
    ctx.count("C16.parent_statistics_judged")
    ctx.count("C16.snapshots_judged")
    want = {first, *rest}
    if set(st2.subjectnames) != want:
        ctx.viol("snapshot_misses_a_row_complete_before_the_call", dict(det, snapshot=sorted(st2.subjectnames), complete_before=sorted(want), where="parent, after the others have returned"), features=feats)
        return
    ctx.nontrivial("parent_stat", i, first, tuple(rest))


def run_processes(ctx, hist, r, split, use_pool, det0, pool_first=False, continue_file=True):
    from vf import sched

    d = tempfile.mkdtemp(prefix="c16p_", dir=os.environ.get("VERIF_TMP"))
    evdir = os.path.join(d, "ev")
    os.makedirs(evdir)
    sched.reset("log", split_writes=split)
    pool_obj = None
    if use_pool and pool_first:
        # the worker pool exists before the aggregator is constructed (workers forked first)
        from panoptica.utils import NonDaemonicPool

        sched.T.mode = "off"
        pool_obj = NonDaemonicPool(3)
    agg, ev, path = new_aggregator(d, continue_file=continue_file)
    sched.T.mode = "off"
    if int(r.integers(0, 2)):
        try:
            agg.make_statistic()  # a statistic before any worker exists (header-only table: may raise)
        except Exception:  # noqa: BLE001
            pass
    feats = {"mode": "pool" if use_pool else "processes", "split_writes": split, "pool_first": pool_first, "continue_file": continue_file}
    det = dict(det0, history=hist, split_writes=split)
    results = []
    ctx.count("evaluations")
    seed = int(r.integers(0, 2**31))
    if use_pool:
        from panoptica.utils import NonDaemonicPool

        args = [(agg, evdir, seed, split, *subject_input(c[1]), c[1]) for calls in hist.values() for c in calls if c[0] == "eval" and not c[1].startswith("bad")]
        hist = {"pool": [c for calls in hist.values() for c in calls if c[0] == "eval" and not c[1].startswith("bad")]}
        det["history"] = hist
        try:
            with (pool_obj or NonDaemonicPool(3)) as pool:
                res = pool.starmap_async(pool_call, args)
                res.get(timeout=120)
        except multiprocessing.TimeoutError:
            ctx.count("C16.inconclusive_watchdog")  # wall-clock is never a verdict
            return
        except Exception as e:  # noqa: BLE001
            ctx.viol("call_raised", dict(det, exc=repr(e)[:300]), features=dict(feats, kind="call_raised"))
            return
    else:
        procs = []
        for w, calls in hist.items():
            p = multiprocessing.Process(target=child_main, args=(agg, w, calls, evdir, seed + len(procs), split))
            procs.append((w, p))
        for _, p in procs:
            p.start()
        deadline = time.monotonic() + 120
        for w, p in procs:
            p.join(max(0.1, deadline - time.monotonic()))
        alive = [w for w, p in procs if p.is_alive()]
        for _, p in procs:
            if p.is_alive():
                p.kill()
        if alive:
            evs = []
            for fn in os.listdir(evdir):
                if fn.startswith("ev_"):
                    with open(os.path.join(evdir, fn)) as fh:
                        evs += [json.loads(l) for l in fh if l.strip()]
            last = {}
            for e in sorted(evs, key=lambda e: e["t"]):
                last[e["w"]] = e
            if all(last.get(w, {}).get("op") == "acquire" for w in alive):
                ctx.viol("call_never_returned", dict(det, workers=alive, waiting={w: last[w]["obj"] for w in alive}), features=dict(feats, kind="call_never_returned"))
            else:
                ctx.count("C16.inconclusive_watchdog")
            return
        for w, p in procs:
            rp = os.path.join(evdir, f"res_{w}.json")
            if p.exitcode != 0 or not os.path.exists(rp):
                ctx.viol("worker_process_died", dict(det, worker=w, exitcode=p.exitcode), features=dict(feats, kind="worker_process_died"))
                return
            with open(rp) as fh:
                results += json.load(fh)
    events = []
    for fn in os.listdir(evdir):
        if fn.startswith("ev_"):
            with open(os.path.join(evdir, fn)) as fh:
                events += [json.loads(l) for l in fh if l.strip()]
    # the parent (which may have built a statistic before the workers started) asks again after all of them have
    # returned: every submitted subject must be there
    try:
        st = agg.make_statistic()
        seen = set(st.subjectnames)
    except Exception as e:  # noqa: BLE001
        seen = None
        if any(c[0] == "eval" and not str(c[1]).startswith("bad") for calls in hist.values() for c in calls):
            ctx.viol("make_statistic_raised_although_rows_were_complete", dict(det, exc=repr(e)[:200], where="parent after all workers returned"), features=dict(feats, kind="make_statistic_raised_although_rows_were_complete"))
            return
    want = {c[1] for calls in hist.values() for c in calls if c[0] == "eval" and not c[1].startswith("bad")}
    if seen is not None and not want <= seen:
        ctx.viol("snapshot_misses_a_row_complete_before_the_call", dict(det, snapshot=sorted(seen), complete_before=sorted(want), where="parent after all workers returned"),
                 features=dict(feats, kind="snapshot_misses_a_row_complete_before_the_call"))
        return
    ctx.count("C16.parent_statistics_judged")
    ctx.count("C16.process_histories_judged")
    ctx.count("C16.events", len(events))
    check_history(ctx, hist, path, events, results, det, feats, order_key="t")
    tr = [(e["pid"], e["op"], e["obj"]) for e in sorted(events, key=lambda e: e["t"]) if e["phase"] == "before"]
    if any(a[0] != b[0] for a, b in zip(tr, tr[1:])):
        ctx.nontrivial(sched.interleaving_hash([(str(a), b, c) for a, b, c in tr]), json.dumps(hist, sort_keys=True))


def run_fork_threads(ctx, i):
    """threads on one aggregator whose evaluator uses the real pools: every evaluation forks workers while the other
    threads are inside the package (vf.helpers.forksafety, in its own process group).  A forked worker that waits for
    a lock whose holder does not exist in its process is a call that can never return."""
    import signal
    import subprocess
    from vf import harness

    d = tempfile.mkdtemp(prefix="c16f_", dir=os.environ.get("VERIF_TMP"))
    det = {"family": "fork_threads", "seed": int(ctx.seed), "i": i}
    feats = {"mode": "fork_threads"}
    p = subprocess.Popen([sys.executable, "-B"] + harness.own_flags() + ["-m", "vf.helpers.forksafety", d, str(1000 * int(ctx.seed) + i), str(i)], cwd=harness.VERIF,
                         env=dict(os.environ, VERIF_FORKSAFETY_OWN_GROUP="1"), stdout=subprocess.PIPE, stderr=subprocess.PIPE, text=True, start_new_session=True)
    try:
        out, err = p.communicate(timeout=240)
    except subprocess.TimeoutExpired:
        out, err = "", "watchdog"
    finally:
        try:
            os.killpg(p.pid, signal.SIGKILL)
        except (ProcessLookupError, PermissionError):
            pass
        try:
            p.communicate(timeout=10)
        except Exception:  # noqa: BLE001
            pass
    ctx.count("evaluations")
    line = out.strip().splitlines()[-1] if out.strip() else ""
    try:
        o = json.loads(line)
    except ValueError:
        ctx.count("C16.inconclusive_watchdog")
        if err != "watchdog":
            ctx.errors.append({"case": {"fam": "fork_threads", "i": i}, "tb": "fork-safety helper gave no result: " + err[-1200:]})
        shutil.rmtree(d, ignore_errors=True)
        return
    shutil.rmtree(d, ignore_errors=True)
    ctx.count("C16.forks_observed", o["forks"])
    ctx.count("C16.fork_histories_overlapping_evaluations", o["overlapping_evaluations"])
    ctx.count("C16.package_thread_locks_tracked", len(o["owned_locks"]))
    ctx.count("C16.package_thread_lock_acquisitions", o["acquisitions"])
    ctx.count("C16.forks_while_another_thread_held_a_package_lock", o["forks_with_lock_held_elsewhere"])
    det = dict(det, profile=o["profile"], threads=o["threads"], owned_locks=o["owned_locks"], holds=o["holds"], forks=o["forks"])
    if o["witnesses"]:
        ctx.viol("call_never_returned", dict(det, reason="a worker process forked while another thread held a lock of the package waits for that lock; its holder does not exist in the worker",
                                             witnesses=o["witnesses"][:3], calls_not_returned=o["stuck"]), features=dict(feats, kind="call_never_returned"))
        return
    if o["stuck"]:
        ctx.count("C16.inconclusive_watchdog")
        return
    ctx.count("C16.fork_histories_judged")
    if o["errors"]:
        ctx.viol("call_raised", dict(det, errors=o["errors"][:3]), features=dict(feats, kind="call_raised"))
        return
    for n in o["subjects"]:
        c = o["rows"].get(n, 0)
        if c != 1:
            kind = "submitted_subject_without_row" if c == 0 else "subject_recorded_more_than_once"
            ctx.viol(kind, dict(det, subject=n, rows=o["rows"]), features=dict(feats, kind=kind))
            return
    if o["overlapping_evaluations"] > 0:
        ctx.nontrivial("fork_threads", o["profile"], o["threads"], o["forks"], o["overlapping_evaluations"])


def run(case, ctx):
    from vf import sched

    fam, i = case["fam"], case["i"]
    if fam == "processes_fresh":
        # the same process histories in an interpreter in which no aggregator has existed before: whatever the module
        # creates on first use (locks, files, caches) is created in this history -- half of them with
        # continue_file=False, where the constructor itself touches nothing
        from vf import harness

        harness.run_case_fresh(ctx, {"fam": "processes", "i": 4 + 5 * i if i % 2 == 0 else 3 + 4 * i, "fresh": True})
        return
    if fam == "fork_threads":
        return run_fork_threads(ctx, i)
    r = gen.rng(ctx.seed, "c16", fam, i)
    det0 = {"family": fam}
    if fam == "parent_stat":
        return run_parent_statistic(ctx, i, r, det0)
    if fam in ("controlled", "dfs", "lines", "lines_eval") and not sched.T.locks_traced:
        ctx.count("C16.controlled_scheduling_unavailable")
        return
    if fam == "controlled":
        hist = make_history(r)
        # several schedules per history: many short histories, many interleavings each
        for s in range(12):
            split = bool((i + s) % 3 == 0)
            kind = s % 4
            rr = np.random.default_rng([ctx.seed, i, s])
            if kind == 0 and s % 8 == 0:
                cs = run_controlled(ctx, hist, lambda ws: sched.focused_walk(rr), "focused", split, det0)
            elif kind == 0 and s % 8 == 4:
                cs = run_controlled(ctx, hist, lambda ws: sched.writer_freeze(rr), "writer_freeze", split, det0)
            elif kind == 0:
                cs = run_controlled(ctx, hist, lambda ws: sched.random_walk(rr), "random", split, det0)
            else:
                cs = run_controlled(ctx, hist, lambda ws, kind=kind: sched.pct(rr, ws, kind), f"pct{kind}", split, det0)
        if i % 10 == 0:
            ctx.sample({"history": hist, "example_trace": [list(t) for t in (cs.trace[:30] if cs else [])]})
    elif fam == "lines":
        # line-level scheduling points (sys.monitoring): interleavings inside the module's own statements and
        # inside stdlib helpers it calls, beyond the traced lock / open boundaries
        if not sched.enable_line_points():
            ctx.count("C16.line_points_unavailable")
            return
        try:
            hist = make_history(r, force_workers=int(r.integers(2, 4)))
            if i % 2 == 0:  # several statistics calls in flight after (and together with) evaluations
                hist = {f"w{k}": [["eval", NAMES[k]], ["stat"], ["stat"] if k % 2 else ["eval", NAMES[(k + 1) % 3]]] for k in range(int(r.integers(2, 4)))}
            for s_ in range(8):
                rr = np.random.default_rng([ctx.seed, i, s_, 77])
                if s_ == 0:
                    cs = run_controlled(ctx, hist, lambda ws: sched.random_walk(rr), "lines_random", bool((i + s_) % 3 == 0), det0)
                elif s_ in (1, 5):
                    cs = run_controlled(ctx, hist, lambda ws: sched.focused_walk(rr), "lines_focused", bool((i + s_) % 3 == 0), det0)
                elif s_ in (3, 4, 6, 7):
                    cs = run_controlled(ctx, hist, lambda ws: sched.writer_freeze(rr), "lines_writer_freeze", bool((i + s_) % 3 == 0), det0)
                else:
                    cs = run_controlled(ctx, hist, lambda ws: sched.pct(rr, ws, 1 + s_ % 3, est_steps=600), "lines_pct", bool((i + s_) % 3 == 0), det0)
                ctx.count("C16.line_level_schedules")
                if cs is not None:
                    ctx.count("C16.line_points", sum(1 for t in cs.trace if t[1] == "line"))
        finally:
            sched.disable_line_points()
    elif fam == "lines_eval":
        # threads interleaved at line level inside the shared evaluator's own code as well
        import glob as _glob
        import panoptica as _p

        root = os.path.dirname(_p.__file__)
        files = [f for f in _glob.glob(os.path.join(root, "**", "*.py"), recursive=True)]
        if not sched.enable_line_points(files):
            ctx.count("C16.line_points_unavailable")
            return
        PROFILE["idx"] = i % len(EVAL_PROFILES)
        PROFILE["cfg"] = EVAL_PROFILES[PROFILE["idx"]]
        try:
            expected_rows(ctx)
            nw = int(r.integers(2, 4))
            hist = {f"w{k}": [["eval", NAMES[(k + j + i) % 6]] for j in range(2)] for k in range(nw)}
            for s_ in range(2):
                rr = np.random.default_rng([ctx.seed, i, s_, 99])
                cs = run_controlled(ctx, hist, lambda ws: sched.random_walk(rr), "lines_eval_random", False, dict(det0, profile=PROFILE["idx"]))
                ctx.count("C16.line_level_schedules")
                ctx.count("C16.evaluator_interleaved_schedules")
                if cs is not None:
                    ctx.count("C16.line_points", sum(1 for t in cs.trace if t[1] == "line"))
        finally:
            sched.disable_line_points()
            PROFILE["idx"], PROFILE["cfg"] = None, CFG
    elif fam == "dfs":
        # preemption-bounded systematic search: 2 workers bound 2, 3 workers bound 1
        nw, bound = (2, 2) if i % 2 == 0 else (3, 1)
        if ctx.tier == "thorough" and i % 8 == 5:
            nw, bound = 3, 2
        elif ctx.tier == "thorough" and i % 8 == 7:
            nw, bound = 4, 1
        hist = {f"w{k}": [["eval", NAMES[(k + (i // 2)) % 2 if (i // 2) % 3 == 0 else k % 3]]] for k in range(nw)}
        if (i // 2) % 4 == 1:
            hist["w0"] = [["eval", "s0"], ["stat"]]
        dfs = sched.DFS(bound)
        limit = 400 if ctx.tier == "quick" else 8000
        n = 0
        while n < limit:
            strat = dfs.strategy()
            run_controlled(ctx, hist, lambda ws: strat, f"dfs{bound}", bool(i % 3 == 0), det0)
            n += 1
            if not dfs.advance():
                ctx.count("C16.dfs_exhausted")
                break
        ctx.count("C16.dfs_schedules", n)
    elif fam == "noise_threads":
        hist = make_history(r)
        run_noise_threads(ctx, hist, r, bool(i % 2), det0)
    else:
        hist = make_history(r, force_workers=int(r.integers(2, 4)))
        if i % 4 == 1:
            # on a file system with coarse modification times (2 s grid): all writes of the history fall into one tick
            with sched.coarse_timestamps(2.0):
                ctx.count("C16.process_histories_on_coarse_timestamps")
                run_processes(ctx, hist, r, bool(i % 2), use_pool=False, det0=dict(det0, coarse_timestamps=True), pool_first=False, continue_file=(i % 5 != 4))
        else:
            run_processes(ctx, hist, r, bool(i % 2), use_pool=(i % 4 == 3), det0=det0, pool_first=(i % 8 == 7), continue_file=(i % 5 != 4))
