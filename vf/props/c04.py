"""C04 -- relabelling after matching preserves both segmentations."""

from __future__ import annotations

import numpy as np

from vf import gen, monitors, pan, ref

ID = "C04"
LEVEL = "exploration"
TECHNIQUE = "runtime monitoring: pre/post snapshot monitor on the real match_instances (partition-preservation checker on the arrays, label map taken from the inner matcher call)"
RULE = (
    "cases = (unmatched instance-map pair, matcher in {threshold, threshold many-to-one, merge}, metric, threshold, dtype); "
    "workload = tiny enumerated maps + generated families + the dtype-boundary family (largest reference label + number of "
    "unmatched predictions in {254..257, 65534..65537}, labels at the dtype maximum, for uint8/16/32/64) + semantic input "
    "through evaluate() where the approximator picks the smallest dtype. Non-trivial = at least one unmatched prediction or "
    "one matched pair; distinct = hash of (arrays, dtype, matcher)."
    ' Further families: label values beyond 2^24 / 2^25, also shared between the two sides in another order and in a prediction without any background voxel; widening cases as 2-D Fortran / transposed / strided views; sparse volumes beyond 2^18 / 2^20 / 2^22 voxels incl. a prediction without background whose rest instance carries a reference label.'
)
ASSUMPTIONS = ["the label map of a match_instances call is the one returned by the _match_instances call inside it"]
MINIMUM = {"C04.checked": 1500, "f:C04.fresh_past_255": 20, "f:C04.fresh_past_65535": 4}
BUDGET_S = {"quick": 1200, "thorough": 900}

TINY = {"t1d4": ((4,), 3, 2), "t2x2": ((2, 2), 3, 2)}


def cases(tier, seed):
    for name, (shape, alpha, stride) in TINY.items():
        n = gen.tiny_count(shape, alpha)
        step = 1 if tier == "thorough" else stride
        for i in range(seed % step, n, step):
            yield {"fam": name, "i": i}
    for i in range(1200 if tier == "quick" else 30000):
        yield {"fam": "rand", "i": i}
    for i in range(160 if tier == "quick" else 2400):
        yield {"fam": "boundary", "i": i}
    for i in range(24 if tier == "quick" else 200):
        yield {"fam": "semantic_boundary", "i": i}
    for i in range(6 if tier == "quick" else 48):
        yield {"fam": "huge_labels", "i": i}
    for i in range(18 if tier == "quick" else 180):
        yield {"fam": "bigvol", "i": i}


def setup(ctx):
    monitors.install(ctx, {"C04"})


MATCHERS = [
    {"kind": "naive", "m2o": False},
    {"kind": "naive", "m2o": True},
    {"kind": "merge"},
]


def run_pair(ctx, pred, refa, fam, thresholds=None, metrics=("IOU", "DSC", "ASSD")):
    from panoptica.utils.processing_pair import UnmatchedInstancePair

    key = gen.arr_key(pred, refa)
    ndim = refa.ndim
    pi, ri = ref.instances_of(ref.vox(pred)), ref.instances_of(ref.vox(refa))
    for metric in metrics:
        if thresholds is None:
            table = ref.score_table(metric, ri, pi, ndim)
            dec = ref.METRIC_DECREASING[metric]
            ths = gen.threshold_classes(table.values(), dec, exact=False, lo=0.0, hi=None if dec else 1.0)
        else:
            ths = thresholds[metric]
        for mk in MATCHERS:
            for thr in ths:
                matcher = pan.make_matcher(dict(mk, metric=metric, thr=thr))
                ctx.count("evaluations")
                try:
                    with pan.quiet():
                        pair = UnmatchedInstancePair(pred.copy(order="K"), refa.copy(order="K"))
                        out = matcher.match_instances(pair)
                        if ctx.cases_run % 2:  # the same matcher on the same pair object once more (judged as well)
                            ctx.count("C04.repeated_calls")
                            out = matcher.match_instances(pair)
                except Exception as e:  # noqa: BLE001
                    ctx.viol(
                        "match_instances_raised",
                        {"exc": repr(e)[:300], "pred": pred, "ref": refa, "matcher": dict(mk, metric=metric, thr=thr)},
                        features={"dtype": str(pred.dtype), "exc": type(e).__name__},
                    )
                    continue
                ctx.nontrivial(key, metric, thr, mk)
    ctx.sample({"family": fam, "dtype": str(pred.dtype), "pred": pred if pred.size < 64 else "(large)", "ref": refa if refa.size < 64 else "(large)"})


def boundary_pair(seed, i):
    """largest reference label + number of unmatched predictions crosses 255 / 65535"""
    r = gen.rng(seed, "boundary", i)
    dtype = [np.uint8, np.uint16, np.uint32, np.uint64][i % 4]
    info = np.iinfo(dtype)
    if i % 8 < 5 or dtype == np.uint8:
        limit = 255
    else:
        limit = 65535
    target = limit + int(r.integers(-1, 3))  # max_ref + n_unmatched in {limit-1 .. limit+2}
    n_unmatched = int(r.integers(1, 12))
    n_matched = int(r.integers(0, 3))
    max_ref = target - n_unmatched
    if max_ref > info.max:
        max_ref = int(info.max)
    width = 3
    n = (n_unmatched + n_matched + 2) * width
    refa = np.zeros(n, dtype=dtype)
    pred = np.zeros(n, dtype=dtype)
    # matched pairs: identical segments, reference labels descending from max_ref
    pos = 0
    ref_labels = [max_ref - k for k in range(n_matched + 1) if max_ref - k > 0]
    pred_label = 1
    for k, rl in enumerate(ref_labels):
        refa[pos : pos + width] = rl
        if k < n_matched:
            pred[pos : pos + width] = pred_label
            pred_label += 1
        pos += width
    # unmatched predictions (no overlap with any reference), labels chosen to collide or not
    for _ in range(n_unmatched):
        lab = pred_label if r.random() < 0.7 else int(r.integers(1, min(info.max, limit + 3)))
        while lab in pred or lab == 0:
            lab += 1
            if lab > info.max:
                lab = 1
        pred[pos : pos + 2] = lab
        pred_label = max(pred_label, 1) + 1
        pos += width
    return pred, refa


def run(case, ctx):
    fam, i = case["fam"], case["i"]
    if fam in TINY:
        shape, alpha, _ = TINY[fam]
        dtype = [np.uint8, np.uint16, np.uint32, np.uint64][i % 4]
        pred, refa = gen.tiny_pair(shape, alpha, i, dtype=dtype)
    elif fam == "rand":
        dtype = [np.uint8, np.uint16, np.uint32, np.uint64][i % 4]
        pred, refa, f = gen.random_pair(ctx.seed, i, dtype=dtype)
        ctx.count("f:family." + f)
    elif fam == "huge_labels":
        # label values beyond 2^24, label maps not in ascending order of the prediction labels
        r = gen.rng(ctx.seed, "c04huge", i)
        dtype = [np.uint32, np.uint64][i % 2]
        base = [2**24, 2**25][(i // 2) % 2]
        pl = [int(x) for x in r.choice(np.arange(base, base + 2**20), size=4, replace=False)] + [3]
        rl = [2, 1, int(base + 5), 7]
        r.shuffle(pl)
        if i % 3 == 0:
            # both sides use the same few huge values in another order (renaming chains a -> b, b -> c)
            rl = [pl[1], pl[2], pl[0], 7]
            ctx.count("f:C04.huge_labels_shared_between_sides")
        refa = np.zeros(40, dtype=dtype)
        pred = np.zeros(40, dtype=dtype)
        for k, (a, b) in enumerate(zip(pl[:4], rl)):
            refa[8 * k : 8 * k + 6] = b
            pred[8 * k + (k % 2) : 8 * k + 6] = a
        pred[36:38] = pl[4]
        if i % 4 == 2:
            # no background voxel in the prediction: the rest is one more instance (smallest or largest label of the map)
            pred[pred == 0] = [2, base + 2**20 + 1][(i // 4) % 2]
            ctx.count("f:C04.huge_labels_prediction_without_background")
        ths = {"IOU": [0.5], "DSC": [0.5], "ASSD": [1.0]}
        ctx.count("f:C04.labels_beyond_2^24")
        run_pair(ctx, pred, refa, fam, thresholds=ths, metrics=("IOU",) if i % 2 else ("DSC",))
        return
    elif fam == "bigvol":
        # sparse volumes beyond 2^18 / 2^20 / 2^22 voxels, instances in the first and last voxels, unmatched prediction
        # in the far corner; also a prediction map without any background voxel
        pred, refa = gen.big_volume_pair(ctx.seed, i, ctx.tier)
        if i % 6 == 1 and pred.size <= 2**21:
            # no background in the prediction: the "rest" is one big unmatched instance carrying the smallest
            # label value, which is also a reference label
            pred = np.where(pred == 0, 1, pred + 1).astype(pred.dtype)
            ctx.count("f:C04.big_volume_without_background")
        ths = {"IOU": [0.3], "DSC": [0.5]}
        ctx.count("f:C04.big_sparse_volume")
        run_pair(ctx, pred, refa, fam, thresholds=ths, metrics=("IOU",) if i % 2 else ("DSC",))
        return
    elif fam == "boundary":
        pred, refa = boundary_pair(ctx.seed, i)
        if i % 3 == 2:
            # the same maps as 2-D arrays (one segment per row) in Fortran order / as transposed or strided views:
            # the widening branch together with a non-C layout
            pred, refa = pred.reshape(-1, 3), refa.reshape(-1, 3)
            lay = (i // 3) % 3
            if lay == 0:
                pred, refa = np.asfortranarray(pred), np.asfortranarray(refa)
            elif lay == 1:
                pred, refa = np.ascontiguousarray(pred.T).T, refa
            else:
                big = np.zeros((pred.shape[0], 6), dtype=pred.dtype)
                big[:, ::2] = pred
                pred, refa = big[:, ::2], np.asfortranarray(refa)
            ctx.count("f:C04.widening_with_non_c_layout")
        ths = {"IOU": [0.5], "DSC": [0.5], "ASSD": [0.5]}
        run_pair(ctx, pred, refa, fam, thresholds=ths, metrics=("IOU", "ASSD") if i % 2 else ("DSC",))
        return
    else:
        # semantic input through evaluate(): the approximator picks the smallest fitting dtype
        r = gen.rng(ctx.seed, "semb", i)
        n_ref = int(r.integers(150, 256)) if i % 3 else int(r.integers(2, 50))
        n_pred = int(r.integers(256 - n_ref, 300 - n_ref + 1)) if i % 3 else int(r.integers(210, 256))
        n_pred = max(1, n_pred)
        refa = np.zeros(2 * (n_ref + n_pred) + 2, dtype=[np.uint8, np.int32, np.uint16][i % 3])
        pred = np.zeros_like(refa)
        refa[1 : 2 * n_ref : 2] = 1
        pred[2 * n_ref + 1 : 2 * (n_ref + n_pred) : 2] = 1
        # a few matched ones
        k = int(r.integers(0, 5))
        pred[1 : 2 * k : 2] = 1
        cfg = {"input": "SEMANTIC", "backend": [None, "cc3d", "scipy"][i % 3], "matcher": {"kind": "naive", "metric": "IOU", "thr": 0.5}}
        ctx.count("evaluations")
        try:
            pan.evaluate(pan.make_evaluator(cfg), pred, refa)
        except Exception as e:  # noqa: BLE001
            ctx.viol("evaluate_raised", {"exc": repr(e)[:300], "n_ref": n_ref, "n_pred": n_pred, "cfg": cfg}, features={"exc": type(e).__name__})
        ctx.nontrivial(gen.arr_key(pred, refa), cfg)
        return
    if not pred.any() or not refa.any():
        ctx.count("skipped_empty_side")
        return
    if pred.ndim >= 2 and i % 4 == 3:  # non-C memory layouts
        if i % 8 == 3:
            pred, refa = np.asfortranarray(pred), np.asfortranarray(refa)
        else:
            pred, refa = np.ascontiguousarray(pred.T).T, np.asfortranarray(refa)
        ctx.count("f:C04.non_c_layout")
    run_pair(ctx, pred, refa, fam)
