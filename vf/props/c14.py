"""C14 -- the merge matcher only merges when it improves the match."""

from __future__ import annotations

import numpy as np

from vf import gen, monitors, pan, ref

ID = "C14"
LEVEL = "exploration"
TECHNIQUE = "runtime monitoring: post-condition monitor on the real MaximizeMergeMatching._match_instances replaying the merge order with independently computed scores"
RULE = (
    "cases = (unmatched instance-map pair, metric in IoU/Dice/ASSD, threshold): 'fragments' family (1..3 references, each "
    "covered by 1..5 prediction fragments of varying size, spill-over fragments that should be rejected, fragments "
    "straddling two references) in 1-D/2-D/3-D, tiny enumerated maps, generated split/noise families; every threshold "
    "class of the single-candidate scores. Non-trivial = some reference overlapped by at least two predictions; distinct "
    "= hash of (arrays, metric, threshold)."
    ' Further families: long-lived matchers on buffers refilled in place, mixed layouts, fragments with far-away tails in volumes up to 2^21 voxels, 20..40 fragments with widely spread labels (decided exactly for IoU/Dice by the ascending inside/outside ratio order), label values whose pair codes sit at 2^8 / 2^16 / 2^32. The oracle uses the metric and threshold the call configured, not what the matcher object stores.'
)
ASSUMPTIONS = [
    "the order in which predictions were added to a reference is the insertion order of the returned label map",
    "IoU/Dice improvement is decided on exact Fractions; ASSD in 2-D/3-D with a 1e-9 guard band (near-equal steps are skipped and counted), in 1-D exactly",
    "'best single candidate' = best among predictions that are not assigned to another reference",
]
MINIMUM = {"C14.checked": 2000, "C14.merge_steps": 300}
BUDGET_S = {"quick": 1200, "thorough": 900}

TINY = {"t1d5": ((5,), 3, 7), "t2x3": ((2, 3), 3, 211)}


def cases(tier, seed):
    for name, (shape, alpha, stride) in TINY.items():
        n = gen.tiny_count(shape, alpha)
        step = stride if tier == "quick" else max(1, stride // 7)
        for i in range(seed % step, n, step):
            yield {"fam": name, "i": i}
    for i in range(1500 if tier == "quick" else 40000):
        yield {"fam": "fragments", "i": i}
    for i in range(500 if tier == "quick" else 10000):
        yield {"fam": "rand", "i": i}
    for i in range(12 if tier == "quick" else 96):
        yield {"fam": "tails", "i": i}
    for i in range(12 if tier == "quick" else 96):
        yield {"fam": "manyfrag", "i": i}
    for i in range(180 if tier == "quick" else 1800):
        yield {"fam": "paircode", "i": i}


def setup(ctx):
    monitors.install(ctx, {"C14"})


def fragments_pair(seed, i):
    r = gen.rng(seed, "frag", i)
    ndim = int(r.choice((1, 1, 2, 2, 3)))
    length = int(r.integers(12, 40))
    other = {1: (), 2: (int(r.integers(1, 5)),), 3: (int(r.integers(1, 4)), int(r.integers(1, 4)))}[ndim]
    shape = other + (length,)
    refa = np.zeros(shape, dtype=np.uint8)
    pred = np.zeros(shape, dtype=np.uint8)
    n_ref = int(r.integers(1, 4))
    bounds = sorted(set(int(x) for x in r.integers(0, length + 1, size=2 * n_ref)))
    lab = 1
    for a, b in zip(bounds[::2], bounds[1::2]):
        if b > a:
            refa[..., a:b] = lab
            lab += 1
    # prediction fragments along the last axis, with gaps, spill-over and straddling
    pos = 0
    plab = 1
    while pos < length:
        w = int(r.integers(1, 7))
        if r.random() < 0.8:
            pred[..., pos : pos + w] = plab
            plab += 1
        pos += w + (1 if r.random() < 0.3 else 0)
    if ndim >= 2:
        # make fragments ragged in the other dimensions
        m = r.random(shape) < 0.12
        pred[m] = 0
        if r.random() < 0.5:
            m2 = r.random(shape) < 0.08
            refa[m2] = 0
    return pred, refa


def run(case, ctx):
    from panoptica.utils.processing_pair import UnmatchedInstancePair

    fam, i = case["fam"], case["i"]
    if fam == "manyfrag":
        # one reference covered by 20..40 prediction fragments whose label values are widely spread: the list of merged
        # labels becomes long (membership tests switch algorithm with the length and spread of the list)
        r = gen.rng(ctx.seed, "c14many", i)
        k = int([20, 24, 32, 40, 22, 28][i % 6])
        w = 2
        n = k * (w + 1) + 30
        shape = (n,) if i % 2 == 0 else (2, n)
        dtype = [np.uint32, np.uint16, np.uint64][i % 3]
        refa = np.zeros(shape, dtype=dtype)
        pred = np.zeros(shape, dtype=dtype)
        labels = [int(x) for x in r.choice(np.arange(1, 60000 if dtype == np.uint16 else 2_000_000), size=k + 2, replace=False)]
        ax = len(shape) - 1
        sl = [slice(None)] * len(shape)
        sl[ax] = slice(5, 5 + k * (w + 1))
        refa[tuple(sl)] = 7
        for j in range(k):
            sl[ax] = slice(5 + j * (w + 1), 5 + j * (w + 1) + w)
            pred[tuple(sl)] = labels[j]
        # two fragments that reach far outside the reference (merging them lowers the score)
        sl[ax] = slice(5 + k * (w + 1) - 1, n - 2)
        pred[tuple(sl)] = labels[k]
        if i % 2 == 1:
            # a larger first fragment, many one-voxel fragments inside the reference (each improves the match) and a
            # last fragment with one voxel inside and several outside (lowers it: must stay unmatched)
            rows = 10 + (i // 2) % 3
            refa = np.zeros((rows, 10), dtype=dtype)
            pred = np.zeros_like(refa)
            refa[0 : rows - 1, :] = 7
            step = int([50, 1000, 37][(i // 2) % 3])
            pred[0:3, :] = 1
            kk = int([18, 22, 30][(i // 4) % 3])
            for q in range(kk):
                pred[3 + q // 10, q % 10] = step * (q + 1)
            pred[rows - 2, 0] = step * (kk + 1)
            pred[rows - 1, 0:5] = step * (kk + 1)
        ctx.count("f:C14.many_fragments_spread_labels")
        for metric, thr in (("IOU", 0.01), ("DSC", 0.02), ("IOU", 0.3)):
            ctx.count("evaluations")
            try:
                with pan.quiet():
                    pan.make_matcher({"kind": "merge", "metric": metric, "thr": thr}).match_instances(UnmatchedInstancePair(pred.copy(), refa.copy()))
            except Exception:  # noqa: BLE001  (recorded by the monitor)
                pass
        ctx.nontrivial("manyfrag", i)
        return
    if fam == "paircode":
        # label values whose products / pair codes sit at 2^8, 2^16, 2^32: the big-labelled prediction is the best fragment of
        # its reference, a small-labelled one-voxel fragment completes it
        pred, refa = gen.paircode_boundary_pair(ctx.seed, i)
        used = set(int(x) for x in np.unique(pred))
        free = next(x for x in (5, 6, 7, 8, 9) if x not in used)
        pred[(0, 2) if pred.ndim == 2 else (2,)] = free
        ctx.count("f:C14.paircode_boundary")
        for metric, thr in (("IOU", 0.1), ("DSC", 0.25), ("IOU", 0.5)):
            ctx.count("evaluations")
            try:
                with pan.quiet():
                    pan.make_matcher({"kind": "merge", "metric": metric, "thr": thr}).match_instances(UnmatchedInstancePair(pred.copy(), refa.copy()))
            except Exception:  # noqa: BLE001  (recorded by the monitor)
                pass
        ctx.nontrivial("paircode", gen.arr_key(pred, refa))
        return
    if fam == "tails":
        # fragments with far-away tails, in small volumes and in volumes beyond 2^18 / 2^20 voxels: the union has to be
        # scored with every voxel of every merged fragment, wherever it lies
        r = gen.rng(ctx.seed, "c14tails", i)
        n = int([4000, 2**18 + 5, 2**20 + 11, 2**20 + 3, 3000, 2**21 + 1][i % 6])
        shape = (n,) if i % 2 == 0 else (3, n // 3 + 1)
        refa = np.zeros(shape, dtype=np.uint8)
        pred = np.zeros(shape, dtype=np.uint8)
        fr, fp = refa.reshape(-1), pred.reshape(-1)
        c = 1000
        T, b, tb = [(40, 2, 12), (40, 2, 8), (30, 3, 20), (60, 1, 9)][(i // 2) % 4]
        fr[c : c + 20] = 1
        fp[c : c + 12] = 1
        fp[10 : 10 + T] = 1  # tail of the first fragment, far before the reference
        fp[c + 12 : c + 12 + b] = 2
        fp[fr.size - 50 - tb : fr.size - 50] = 2  # tail of the second fragment, at the far end
        if i % 3 == 0:
            fp[c + 15 : c + 20] = 3  # a third fragment without tail
        ctx.count("f:C14.fragments_with_far_tails")
        for metric, thr in (("IOU", 0.1), ("DSC", 0.15), ("IOU", 0.02)):
            ctx.count("evaluations")
            try:
                with pan.quiet():
                    pan.make_matcher({"kind": "merge", "metric": metric, "thr": thr}).match_instances(UnmatchedInstancePair(pred.copy(), refa.copy()))
            except Exception:  # noqa: BLE001  (recorded by the monitor)
                pass
        ctx.nontrivial("tails", i)
        return
    if fam in TINY:
        shape, alpha, _ = TINY[fam]
        pred, refa = gen.tiny_pair(shape, alpha, i)
    elif fam == "fragments":
        pred, refa = fragments_pair(ctx.seed, i)
    else:
        pred, refa, f = gen.random_pair(ctx.seed, i, dtype=np.uint8, family=["split", "noise", "shift", "touch", "bern"][i % 5])
    if not pred.any() or not refa.any():
        ctx.count("skipped_empty_side")
        return
    ndim = refa.ndim
    pi, ri = ref.instances_of(ref.vox(pred)), ref.instances_of(ref.vox(refa))
    key = gen.arr_key(pred, refa)
    monitors.S.exact = ndim == 1
    multi = False
    for metric in ("IOU", "DSC", "ASSD"):
        table = ref.score_table(metric, ri, pi, ndim)
        if len({r_ for r_, _ in table}) < len(table):
            multi = True
        dec = ref.METRIC_DECREASING[metric]
        ths = gen.threshold_classes(table.values(), dec, exact=metric != "ASSD" or ndim == 1, lo=0.0, hi=None if dec else 1.0)
        for thr in ths:
            matcher = pan.make_matcher({"kind": "merge", "metric": metric, "thr": thr})
            ctx.count("evaluations")
            try:
                with pan.quiet():
                    matcher.match_instances(UnmatchedInstancePair(pred.copy(), refa.copy()))
            except Exception:  # noqa: BLE001  (recorded by the monitor)
                continue
            if multi:
                ctx.nontrivial(key, metric, thr)
    if refa.ndim >= 2 and i % 3 == 0:
        for metric, thr in (("IOU", 0.3), ("DSC", 0.5)):
            ctx.count("evaluations")
            ctx.count("C14.mixed_layout_calls")
            try:
                with pan.quiet():
                    pan.make_matcher({"kind": "merge", "metric": metric, "thr": thr}).match_instances(UnmatchedInstancePair(np.ascontiguousarray(pred), np.asfortranarray(refa)))
            except Exception:  # noqa: BLE001
                pass
    # long-lived matcher objects and in-place reused buffers (same array objects, new content): every call judged
    store = ctx.__dict__.setdefault("_reuse", {"matchers": {}, "bufs": {}})
    key_b = (pred.shape, str(pred.dtype))
    if key_b not in store["bufs"]:
        store["bufs"][key_b] = (np.zeros(pred.shape, pred.dtype), np.zeros(refa.shape, refa.dtype))
    bp, br = store["bufs"][key_b]
    for metric, thr in (("IOU", 0.5), ("DSC", 0.4), ("ASSD", 1.0), ("IOU", 0.7)):
        if (metric, thr) not in store["matchers"]:
            store["matchers"][(metric, thr)] = pan.make_matcher({"kind": "merge", "metric": metric, "thr": thr})
        # the buffers are refilled between two consecutive calls (second content: the prediction mirrored)
        for content in (pred, pred[::-1]):
            np.copyto(bp, content)
            np.copyto(br, refa)
            ctx.count("evaluations")
            ctx.count("C14.reused_matcher_calls")
            try:
                with pan.quiet():
                    store["matchers"][(metric, thr)].match_instances(UnmatchedInstancePair(bp, br))
            except Exception:  # noqa: BLE001
                pass
    monitors.S.exact = False
    if multi and i % 40 == 0:
        ctx.sample({"family": fam, "pred": pred, "ref": refa})
