"""C09 -- results do not depend on label values, label order or integer dtype."""

from __future__ import annotations

import numpy as np

from vf import gen, meta, monitors, pan

ID = "C09"
LEVEL = "exploration"
TECHNIQUE = "runtime monitoring: metamorphic monitor (injective relabelling / dtype change) comparing two executions of the real evaluate(); uniqueness of the matching decided by the reference model"
RULE = (
    "cases = (base pair with labels 1..k, transformation, input type, matcher): transformations = random injections into "
    "[1, 2^24), order reversal, labels at max(dtype) and below, prediction and reference labels both beyond 2^16, equal "
    "label values whose sum wraps in the dtype (128+128 in uint8, 32768+32768 in uint16) placed at the extremity of the "
    "bounding box, dtype changes uint8/16/32/64 (signed for semantic); matchers = threshold, many-to-one, merge. Only "
    "cases whose matching is uniquely determined are judged. Non-trivial = judged case with tp > 0 in the base run; "
    "distinct = hash of (base arrays, transformation, configuration)."
    ' Further families: pair codes at 2^8 / 2^16 / 2^32, nearly tied candidates with exchanged label values, about 256 components with renamed / retyped foreground class, class values that a narrow cast would erase or join (256, 512, 65536, 257, ...), non-native byte order.'
)
ASSUMPTIONS = [
    "labels below 2^24 (the statement's quantifier); labels at the dtype maximum only for uint8/uint16",
    "the base case itself is judged against the reference model by C01",
]
MINIMUM = {"C09.judged": 1500, "f:C09.labels_beyond_2^16_both_sides": 30, "f:C09.sum_wraps_in_dtype": 30, "f:C09.dtype_max_label": 30}
BUDGET_S = {"quick": 1200, "thorough": 900}


def cases(tier, seed):
    for i in range(1400 if tier == "quick" else 30000):
        yield {"fam": "rand", "i": i}
    for i in range(120 if tier == "quick" else 1500):
        yield {"fam": "wrap", "i": i}
    for i in range(270 if tier == "quick" else 2700):
        yield {"fam": "paircode", "i": i}
    for i in range(32 if tier == "quick" else 320):
        yield {"fam": "neartie", "i": i}
    for i in range(36 if tier == "quick" else 360):
        yield {"fam": "manycomp", "i": i}


def setup(ctx):
    monitors.install(ctx, set())


def relabel(arr, mapping, dtype):
    out = np.zeros(arr.shape, dtype=dtype)
    for old, new in mapping.items():
        out[arr == old] = new
    return out


def injection(labels, r, kind, dtype):
    info = np.iinfo(dtype)
    labels = list(labels)
    n = len(labels)
    if kind == "reverse":
        return dict(zip(labels, reversed(labels)))
    if kind == "dtype_max":
        top = min(int(info.max), 2**24 - 1)
        vals = [top - k for k in range(n)]
        r.shuffle(vals)
        return dict(zip(labels, vals))
    if kind == "wrap256":
        # values that a too narrow cast sends to 0 (multiples of 256 / 65536) or onto one another (congruent values)
        pool = [256, 512, 65536, 131072, 1, 257, 65537, 2, 513, 3, 768]
        vals = [int(x) for x in r.permutation(pool[: max(n, 4)])][:n] if n <= len(pool) else list(range(1, n + 1))
        return dict(zip(labels, vals))
    if kind == "beyond16":
        vals = [int(x) for x in r.choice(np.arange(2**16 + 1, min(int(info.max), 2**24 - 1)), size=n, replace=False)]
        return dict(zip(labels, vals))
    hi = min(int(info.max), 2**24 - 1)
    if hi <= 4 * n:
        vals = [int(x) for x in r.permutation(np.arange(1, hi + 1))[:n]]
    else:
        vals = set()
        while len(vals) < n:
            vals.add(int(r.integers(1, hi + 1)))
        vals = list(vals)
        r.shuffle(vals)
    return dict(zip(labels, vals))


def judge(ctx, base, t, det, feats):
    d = meta.diff(base, t)
    ctx.count("C09.judged")
    if d is not None:
        ctx.viol("result_changed_by_relabelling_or_dtype", dict(det, key=d, base=base.get(d.replace("list:", ""), base.get("lists", {}).get(d.replace("list:", ""))) if "ERR" not in base else base,
                                                            transformed=t if "ERR" in t else t.get(d, t["lists"].get(d.replace("list:", "")))), features=dict(feats, key=d.split(":")[0]))
        return False
    return True


def run(case, ctx):
    fam, i = case["fam"], case["i"]
    r = gen.rng(ctx.seed, "c09", fam, i)
    it = ["UNMATCHED_INSTANCE", "SEMANTIC", "MATCHED_INSTANCE"][i % 3]
    mk = [{"kind": "naive", "m2o": False}, {"kind": "naive", "m2o": True}, {"kind": "merge"}][(i // 3) % 3]
    metric = ["IOU", "DSC", "ASSD"][(i // 9) % 3]
    thr = {"IOU": [0.5, 0.2], "DSC": [0.5, 0.3], "ASSD": [1.5, 4.0]}[metric][i % 2]
    cfg = {"input": it, "backend": [None, "cc3d", "scipy"][i % 3], "matcher": None if it == "MATCHED_INSTANCE" else dict(mk, metric=metric, thr=thr)}
    if fam == "wrap":
        return wrap_case(ctx, i, r, cfg)
    if fam == "manycomp":
        return many_components(ctx, i, r)
    if fam == "neartie":
        p2, r2 = gen.near_tie_pair(ctx.seed, i)
        cfg = dict(cfg, input="UNMATCHED_INSTANCE", matcher={"kind": ["naive", "merge"][i % 2], "metric": "IOU", "thr": 0.3, "m2o": bool(i % 4 == 2)}, metrics=["DSC", "IOU", "RVD"], **{"global": ["DSC"]})
        swap = r2.copy()  # exchange the label values of the two competing references
        la, lb = [int(x) for x in np.unique(r2) if x != 0][:2]
        swap[r2 == la], swap[r2 == lb] = lb, la
        base, t = meta.run(cfg, p2, r2), meta.run(cfg, p2, swap)
        ctx.count("evaluations", 2)
        ctx.count("f:C09.near_tie_large_instances")
        d = meta.diff(base, t, metrics=["DSC", "IOU", "RVD"], keys=["num_ref_instances", "num_pred_instances", "tp", "fp", "fn", "rq", "sq", "sq_dsc", "pq", "sq_rvd"])
        ctx.count("C09.judged")
        if d is not None:
            ctx.viol("result_changed_by_relabelling_or_dtype", {"pred": "near_tie_pair(%d)" % i, "labels": [la, lb], "cfg": cfg, "key": d}, features={"input": "UNMATCHED_INSTANCE", "kind": "near_tie_swap", "key": d.split(":")[0]})
        else:
            ctx.nontrivial("neartie", i, cfg)
        return
    if fam == "paircode":
        # label values whose pair code lands at 2^8 / 2^16 / 2^32, against the same maps labelled 1..k in uint64
        p2, r2 = gen.paircode_boundary_pair(ctx.seed, i)
        cfg = dict(cfg, input="UNMATCHED_INSTANCE", matcher=dict(mk, metric="IOU", thr=0.5))

        def compact(a):
            out = np.zeros(a.shape, dtype=np.uint64)
            for k, l in enumerate([x for x in np.unique(a) if x != 0], start=1):
                out[a == l] = k
            return out

        base = meta.run(cfg, compact(p2), compact(r2))
        t = meta.run(cfg, p2, r2)
        ctx.count("evaluations", 2)
        ctx.count("f:C09.paircode_boundary")
        feats = {"input": "UNMATCHED_INSTANCE", "kind": "paircode_boundary", "dtype": str(p2.dtype), "matcher": mk["kind"]}
        if judge(ctx, base, t, {"pred": p2, "ref": r2, "cfg": cfg, "labels_pred": sorted(int(x) for x in np.unique(p2) if x), "labels_ref": sorted(int(x) for x in np.unique(r2) if x)}, feats):
            ctx.nontrivial("paircode", gen.arr_key(p2, r2), cfg)
        return
    pred, refa, f = gen.random_pair(ctx.seed, 20000 + i, dtype=np.uint16, max_inst=5)
    ctx.count("f:family." + f)
    if it == "MATCHED_INSTANCE":
        pred = gen.make_matched(pred, refa, r)
    elif it == "SEMANTIC":
        pred, refa = gen.to_semantic(pred, r, 3), gen.to_semantic(refa, r, 3)
    if not meta.unique_matching(pred, refa, cfg):
        ctx.count("skipped_matching_not_unique")
        return
    base = meta.run(cfg, pred, refa)
    ctx.count("evaluations")
    if "ERR" in base:
        ctx.viol("evaluate_raised", {"pred": pred, "ref": refa, "cfg": cfg, "exc": base["ERR"]}, features={"input": it, "stage": "base"})
        return
    pl = [int(x) for x in np.unique(pred) if x != 0]
    rl = [int(x) for x in np.unique(refa) if x != 0]
    kinds = ["random", "reverse", "dtype_max", "beyond16", "dtype_only", "wrap256"]
    for kind in kinds:
        if it == "SEMANTIC":
            dtype = [np.uint8, np.uint16, np.uint32, np.uint64, np.int8, np.int16, np.int32, np.int64][int(r.integers(0, 8))]
        else:
            dtype = [np.uint8, np.uint16, np.uint32, np.uint64][int(r.integers(0, 4))]
        if kind in ("beyond16", "wrap256") and np.iinfo(dtype).max < 2**18:
            dtype = np.uint32 if it != "SEMANTIC" else [np.uint32, np.int32, np.int64][int(r.integers(0, 3))]
        if kind == "dtype_max" and np.iinfo(dtype).max > 2**24 and r.random() < 0.7:
            dtype = [np.uint8, np.uint16][int(r.integers(0, 2))] if it != "SEMANTIC" else [np.uint8, np.uint16, np.int8, np.int16][int(r.integers(0, 4))]
        if len(set(pl) | set(rl)) >= np.iinfo(dtype).max:
            continue
        if np.dtype(dtype).itemsize > 1 and r.random() < 0.15 and (it != "SEMANTIC" or cfg["backend"] == "scipy"):
            dtype = np.dtype(dtype).newbyteorder(">")  # the same integer type in non-native byte order
            ctx.count("f:C09.non_native_byte_order")
        if kind == "dtype_only":
            mp, mr = {l: l for l in pl}, {l: l for l in rl}
        elif it == "MATCHED_INSTANCE":
            joint = injection(sorted(set(pl) | set(rl)), r, kind, dtype)
            mp, mr = {l: joint[l] for l in pl}, {l: joint[l] for l in rl}
        else:
            mp, mr = injection(pl, r, kind, dtype), injection(rl, r, kind, dtype)
        p2, r2 = relabel(pred, mp, dtype), relabel(refa, mr, dtype)
        t = meta.run(cfg, p2, r2)
        ctx.count("evaluations")
        mxp, mxr = max(mp.values(), default=0), max(mr.values(), default=0)
        if mxp > 2**16 and mxr > 2**16:
            ctx.count("f:C09.labels_beyond_2^16_both_sides")
        if kind == "dtype_max":
            ctx.count("f:C09.dtype_max_label")
        feats = {"input": it, "kind": kind, "dtype": np.dtype(dtype).name, "matcher": (cfg["matcher"] or {}).get("kind"),
                 "pair_code_exceeds_32bit": bool(mxp * (mxr + 1) + mxr >= 2**32), "wider_than_32bit_dtype": np.dtype(dtype).itemsize > 4}
        det = {"pred": pred, "ref": refa, "cfg": cfg, "map_pred": mp, "map_ref": mr, "dtype": np.dtype(dtype).name}
        ok = judge(ctx, base, t, det, feats)
        if ok and isinstance(base.get("tp"), int) and base["tp"] > 0:
            ctx.nontrivial(gen.arr_key(pred, refa), kind, np.dtype(dtype).name, cfg)
    if i % 60 == 0:
        ctx.sample({"input": it, "pred": pred if pred.size < 40 else "(%s)" % (pred.shape,), "cfg": cfg, "tp": base["tp"]})


def many_components(ctx, i, r):
    """semantic maps with about 256 (or more) connected components on one or both sides and small class values: the
    class value and the dtype of the input must not matter (component numbering vs. class-value dtype)"""
    n_ref = int([254, 255, 256, 257, 300, 3][i % 6])
    n_pred = int([3, 256, 255, 300, 257, 258][i % 6])
    n = 2 * max(n_ref, n_pred) + 4
    base_r = np.zeros(n, dtype=np.int64)
    base_p = np.zeros(n, dtype=np.int64)
    base_r[1 : 2 * n_ref : 2] = 1
    base_p[1 : 2 * n_pred : 2] = 1
    if i % 2:
        base_r, base_p = np.stack([base_r, base_r * 0, base_r]), np.stack([base_p, base_p * 0, base_p * 0])
    cfg = {"input": "SEMANTIC", "backend": [None, "cc3d", "scipy"][(i // 2) % 3], "matcher": {"kind": "naive", "metric": "IOU", "thr": 0.5, "m2o": False}}
    base = meta.run(cfg, base_p.astype(np.uint8), base_r.astype(np.uint8))
    ctx.count("evaluations")
    for val, dtype in ((1, np.int64), (200, np.uint8), (300, np.uint16), (300, np.int32), (70000, np.uint32), (255, np.int16)):
        t = meta.run(cfg, (base_p * val).astype(dtype), (base_r * val).astype(dtype))
        ctx.count("evaluations")
        ctx.count("f:C09.many_components")
        feats = {"input": "SEMANTIC", "kind": "many_components", "dtype": np.dtype(dtype).name}
        ok = judge(ctx, base, t, {"n_ref_components": n_ref * (2 if i % 2 else 1), "n_pred_components": n_pred, "cfg": cfg, "class_value": val, "dtype": np.dtype(dtype).name}, feats)
        if ok:
            ctx.nontrivial("manycomp", i, val, np.dtype(dtype).name)
    # and the counts themselves (the base run could be wrong in the same way as every variant)
    exp_ref, exp_pred = n_ref * (2 if i % 2 else 1), n_pred
    if "ERR" not in base and (base["num_ref_instances"] != exp_ref or base["num_pred_instances"] != exp_pred):
        ctx.viol("result_changed_by_relabelling_or_dtype", {"cfg": cfg, "expected_instances": [exp_ref, exp_pred], "reported": [base["num_ref_instances"], base["num_pred_instances"]]},
                 features={"input": "SEMANTIC", "kind": "many_components", "key": "num_instances"})


def wrap_case(ctx, i, r, cfg):
    """equal label values on both sides whose sum wraps in the dtype, at the extremity of the bounding box"""
    dtype = [np.uint8, np.uint16][i % 2]
    half = (int(np.iinfo(dtype).max) + 1) // 2
    n = int(r.integers(10, 24))
    it = cfg["input"]
    base_p = np.zeros(n, dtype=np.uint32)
    base_r = np.zeros(n, dtype=np.uint32)
    # instance A in the middle, instance B at the extremity (identical on both sides -> a true positive)
    base_p[4:7] = 1
    base_r[4:8] = 1
    base_p[n - 2 : n] = 2
    base_r[n - 2 : n] = 2
    if i % 3 == 0:
        base_p, base_r = np.stack([base_p, base_p * 0]), np.stack([base_r, base_r * 0])
    if it == "SEMANTIC":
        cfg = dict(cfg, backend="cc3d")  # label aware: the two labels stay two instances
    base = meta.run(cfg, base_p.astype(np.uint32), base_r.astype(np.uint32))
    ctx.count("evaluations")
    k = int(r.integers(0, 3))
    big = [half, half + k, int(np.iinfo(dtype).max) - k][i % 3]
    other = int(r.integers(1, half - 1))
    mp = {1: other, 2: big}
    mr = {1: other if it == "MATCHED_INSTANCE" else int(r.integers(1, half - 1)), 2: big}
    if mp[1] == mp[2] or mr[1] == mr[2]:
        return
    p2, r2 = relabel(base_p, mp, dtype), relabel(base_r, mr, dtype)
    t = meta.run(cfg, p2, r2)
    ctx.count("evaluations")
    ctx.count("f:C09.sum_wraps_in_dtype")
    feats = {"input": it, "kind": "sum_wraps", "dtype": np.dtype(dtype).name, "sum_wraps_to_zero": bool((big + big) % (int(np.iinfo(dtype).max) + 1) == 0)}
    ok = judge(ctx, base, t, {"pred": base_p, "ref": base_r, "cfg": cfg, "map_pred": mp, "map_ref": mr, "dtype": np.dtype(dtype).name}, feats)
    if ok:
        ctx.nontrivial("wrap", i, big, np.dtype(dtype).name, cfg)
