"""C20 -- dataset summaries are the statistics of exactly the recorded finite values."""

from __future__ import annotations

import itertools
import math
import os
import statistics
import tempfile

import numpy as np

from vf import gen, monitors, pan

ID = "C20"
LEVEL = "exploration"
TECHNIQUE = "runtime monitoring: monitor on the real Panoptica_Statistic (from_file and direct construction) against python statistics/math on exactly the finite recorded values; row-permutation metamorphic runs"
RULE = (
    "cases = result tables: 1..5 groups x 1..8 metrics x 0..30 subjects, random missing pattern (empty cell, nan, inf, -inf), "
    "magnitudes 1e-120..1e120, written as tsv (so from_file is on the path) or constructed directly; for <= 5 subjects all "
    "row permutations (thorough; a sample in quick). Judged per (group, metric) with at least one finite value; across-groups "
    "only when every (group, metric) has one. Non-trivial = table with at least one missing and one finite cell; distinct = "
    "hash of the table."
    ' Further: read accessors before the summaries; tables with non-ASCII names loaded in an interpreter whose locale encoding is ASCII.'
)
ASSUMPTIONS = ["float comparison: relative 1e-9 (std: absolute 1e-9 x largest magnitude)", "subject names unique (a third of the tables with quotes, tabs, spaces and non-ASCII characters in them, written with the aggregator's csv dialect), group names without '-' (C18 covers names)"]
MINIMUM = {"C20.summaries_judged": 3000, "C20.subject_lookups_judged": 1000, "C20.across_groups_judged": 100, "C20.permutations_judged": 200}
BUDGET_S = {"quick": 1200, "thorough": 900}


def cases(tier, seed):
    for i in range(4000 if tier == "quick" else 120000):
        yield {"fam": "table", "i": i}
    for i in range(2 if tier == "quick" else 16):
        yield {"fam": "locale", "i": i}


def setup(ctx):
    monitors.install(ctx, set())


def make_table(seed, i):
    r = gen.rng(seed, "c20", i)
    ng, nm = int(r.integers(1, 6)), int(r.integers(1, 9))
    ns = int(r.integers(0, 31)) if i % 5 else int(r.integers(0, 6))
    groups = [f"g{j}x" for j in range(ng)]
    metrics = [f"m{j}" for j in range(nm)]
    subjects = [f"s{j:03d}" for j in range(ns)]
    if i % 3 == 1:
        # names as data sets have them: spaces, quotes, commas, tabs inside, non-ASCII; the table is then written the way the
        # aggregator writes it (csv.writer, tab-separated), so that a name which needs quoting is quoted in the file
        deco = ['case {j} "left"', '"q{j}"', "it's {j}", "a,b;{j}", "tab\tin {j}", "pätient_{j}", "{j} ", " {j}", "x''{j}\"", "患者{j}", "s{j}\\n", "#{j}", "{j}"]
        subjects = [deco[(j + i) % len(deco)].format(j=j) for j in range(ns)]
    r.shuffle(subjects)
    p_missing = float(r.choice([0.0, 0.1, 0.4, 0.8]))
    scale = float(r.choice([1.0, 1.0, 1e-3, 1e6, 1e120, 1e-120]))
    cells = {}
    for s in subjects:
        for g in groups:
            for m in metrics:
                if r.random() < p_missing:
                    cells[(s, g, m)] = str(r.choice(["", "nan", "inf", "-inf", "NaN", "Infinity", "-Infinity", "-nan", "1e999", "-1e999", "INF"]))
                else:
                    v = float(r.normal()) * scale if r.random() < 0.8 else float(int(r.integers(0, 3)))
                    cells[(s, g, m)] = v
    return groups, metrics, subjects, cells


def finite(v):
    return isinstance(v, float) and math.isfinite(v)


def write_tsv(path, groups, metrics, subjects, cells):
    if any(c in s for s in subjects for c in '"\t'):
        import csv

        with open(path, "w", encoding="utf8", newline="") as fh:
            w = csv.writer(fh, delimiter="\t", lineterminator="\n")
            w.writerow(["subject_name"] + [f"{g}-{m}" for g in groups for m in metrics])
            for s in subjects:
                w.writerow([s] + [(repr(cells[(s, g, m)]) if isinstance(cells[(s, g, m)], float) else cells[(s, g, m)]) for g in groups for m in metrics])
        return
    with open(path, "w", encoding="utf8", newline="") as fh:
        fh.write("\t".join(["subject_name"] + [f"{g}-{m}" for g in groups for m in metrics]) + "\n")
        for s in subjects:
            row = [s]
            for g in groups:
                for m in metrics:
                    v = cells[(s, g, m)]
                    row.append(repr(v) if isinstance(v, float) else v)
            fh.write("\t".join(row) + "\n")


def build(groups, metrics, subjects, cells, via_file, tmpdir):
    from panoptica import Panoptica_Statistic

    if via_file:
        path = os.path.join(tmpdir, "t.tsv")
        write_tsv(path, groups, metrics, subjects, cells)
        with pan.quiet():
            return Panoptica_Statistic.from_file(path)
    vd = {g: {m: [cells[(s, g, m)] if finite(cells[(s, g, m)]) else None for s in subjects] for m in metrics} for g in groups}
    with pan.quiet():
        return Panoptica_Statistic(subj_names=list(subjects), value_dict=vd)


def judge(ctx, st, groups, metrics, subjects, cells, via_file, tag=""):
    det = {"groups": groups, "metrics": metrics, "subjects": subjects, "cells": {f"{s}|{g}|{m}": v for (s, g, m), v in list(cells.items())[:60]}, "via_file": via_file}
    feats = {"via_file": via_file}
    all_have = True
    if len(subjects) % 2 == 0:
        # other read accessors first: reading must not change what later summaries report
        for m in metrics:
            try:
                allv = st.get_across_groups(m)
            except Exception as e:  # noqa: BLE001
                ctx.viol("get_across_groups_raised" + tag, dict(det, metric=m, exc=repr(e)[:200]), features=feats)
                return False
            want_all = [cells[(s, g, m)] if finite(cells[(s, g, m)]) else None for g in groups for s in subjects]
            ctx.count("C20.across_groups_lists_judged")
            if len(allv) != len(want_all) or any(not pan.same(a, b) for a, b in zip(allv, want_all)):
                ctx.viol("get_across_groups_differs" + tag, dict(det, metric=m, got=allv[:40], expected=want_all[:40]), features=feats)
                return False
    for g in groups:
        for m in metrics:
            vals = [cells[(s, g, m)] for s in subjects if finite(cells[(s, g, m)])]
            if not vals:
                all_have = False
                continue
            raw = [cells[(s, g, m)] for s in subjects]
            f2 = dict(feats, has_neg_inf=any(x in raw for x in ("-inf", "-Infinity", "-1e999")), has_pos_inf=any(x in raw for x in ("inf", "Infinity", "1e999", "INF")), has_nan=any(x in raw for x in ("nan", "NaN", "-nan")))
            try:
                with np.errstate(all="ignore"):
                    su = st.get_summary(g, m)
                got = (su.avg, su.std, su.min, su.max)
            except Exception as e:  # noqa: BLE001
                ctx.viol("get_summary_raised" + tag, dict(det, group=g, metric=m, exc=repr(e)[:200]), features=dict(f2, exc=type(e).__name__))
                return False
            ctx.count("C20.summaries_judged")
            mag = max(abs(v) for v in vals)
            want = (statistics.fmean(vals), statistics.pstdev(vals), min(vals), max(vals))
            ok = (
                pan.same(got[0], want[0], rel=1e-9, abs_=1e-9 * mag)
                and pan.same(got[1], want[1], rel=1e-9, abs_=1e-9 * mag)
                and pan.same(got[2], want[2])
                and pan.same(got[3], want[3])
            )
            if not ok:
                ctx.viol("summary_differs_from_statistics_of_finite_values" + tag, dict(det, group=g, metric=m, got=got, expected=want, column=raw), features=f2)
                return False
    for s in subjects[:6]:
        try:
            one = st.get_one_subject(s)
        except Exception as e:  # noqa: BLE001
            ctx.viol("get_one_subject_raised" + tag, dict(det, subject=s, exc=repr(e)[:200]), features=feats)
            return False
        ctx.count("C20.subject_lookups_judged")
        for g in groups:
            for m in metrics:
                v = cells[(s, g, m)]
                want = v if finite(v) else None
                if not pan.same(one[g][m], want):
                    raw = [cells[(x, g, m)] for x in subjects]
                    ctx.viol("subject_lookup_returns_other_value" + tag, dict(det, subject=s, group=g, metric=m, got=one[g][m], expected=want),
                             features=dict(feats, cell=v if isinstance(v, str) else "finite"))
                    return False
    if all_have and subjects:
        try:
            with np.errstate(all="ignore"):
                ac = st.get_summary_across_groups()
        except Exception as e:  # noqa: BLE001
            ctx.viol("get_summary_across_groups_raised" + tag, dict(det, exc=repr(e)[:200]), features=feats)
            return False
        ctx.count("C20.across_groups_judged")
        for m in metrics:
            avgs = [statistics.fmean([cells[(s, g, m)] for s in subjects if finite(cells[(s, g, m)])]) for g in groups]
            mag = max(abs(v) for v in avgs)
            want = (statistics.fmean(avgs), statistics.pstdev(avgs), min(avgs), max(avgs))
            su = ac[m]
            got = (su.avg, su.std, su.min, su.max)
            if not all(pan.same(a, b, rel=1e-9, abs_=1e-9 * mag) for a, b in zip(got, want)):
                ctx.viol("across_groups_summary_differs" + tag, dict(det, metric=m, got=got, expected=want), features=feats)
                return False
    return True


def run(case, ctx):
    i = case["i"]
    if case.get("fam") == "locale":
        # tables written by the aggregator with non-ASCII subject names, loaded in a process whose locale encoding is ASCII
        from vf.props import c18

        return c18.locale_roundtrip(ctx, 50 + i, ("subject_lookup_returns_other_value", "construction_raised"))
    groups, metrics, subjects, cells = make_table(ctx.seed, i)
    via_file = i % 3 != 0
    tmpdir = tempfile.mkdtemp(prefix="c20_", dir=os.environ.get("VERIF_TMP"))
    ctx.count("evaluations")
    det0 = {"groups": groups, "metrics": metrics, "n_subjects": len(subjects), "via_file": via_file}
    if not subjects and via_file:
        # header-only file: the statement speaks about (group, metric) with a finite value; nothing to judge
        ctx.count("skipped_no_subjects")
        return
    if not subjects:
        ctx.count("skipped_no_subjects")
        return
    try:
        st = build(groups, metrics, subjects, cells, via_file, tmpdir)
    except Exception as e:  # noqa: BLE001
        ctx.viol("construction_raised", dict(det0, exc=repr(e)[:300]), features={"via_file": via_file, "exc": type(e).__name__})
        return
    ok = judge(ctx, st, groups, metrics, subjects, cells, via_file)
    vals = list(cells.values())
    if ok and any(isinstance(v, str) for v in vals) and any(finite(v) for v in vals):
        ctx.nontrivial(repr(sorted((k, repr(v)) for k, v in cells.items())), via_file)
    if i % 300 == 0:
        ctx.sample(dict(det0, first_row={f"{g}-{m}": cells[(subjects[0], g, m)] for g in groups[:2] for m in metrics[:3]}))
    # order of subjects is irrelevant
    if ok and len(subjects) <= 5:
        perms = list(itertools.permutations(subjects))
        if ctx.tier == "quick":
            perms = perms[:: max(1, len(perms) // 4)]
        for perm in perms[1:]:
            try:
                st2 = build(groups, metrics, list(perm), cells, via_file, tmpdir)
            except Exception as e:  # noqa: BLE001
                ctx.viol("construction_raised", dict(det0, exc=repr(e)[:300], permutation=list(perm)), features={"via_file": via_file, "exc": type(e).__name__})
                break
            ctx.count("C20.permutations_judged")
            if not judge(ctx, st2, groups, metrics, list(perm), cells, via_file, tag="_after_row_permutation"):
                break
