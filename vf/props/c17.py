"""C17 -- aggregation survives crashes, restarts and neighbouring aggregators."""

from __future__ import annotations

import csv
import json
import os
import shutil
import sys
import tempfile
import threading
import time
import traceback

import numpy as np

from vf import gen, pan

ID = "C17"
LEVEL = "fault_enumeration"
TECHNIQUE = "runtime monitoring with fault injection: process death (os._exit) at every traced file/lock operation of the real aggregator in forked children, restart in a second forked child, final files compared with an uninterrupted run; session histories and sibling output files"
RULE = (
    "cases = (initial file state, crash point, variant): a dry run counts the N traced file/lock operations of a session "
    "(constructor + 3 subjects); for every k in 1..N+1 the session runs in a forked child (fresh locks, empty atexit table, as "
    "a new process has) that dies before operation k (k = N+1: after the last one, without exit handlers); a second forked "
    "child re-creates the aggregator on the same file and resubmits all subjects. Crossed with the initial states {absent, "
    "empty, header only, header + 2 rows}; variants: graceful exit at the crash point (exit handlers run), crash during "
    "recovery (depth 2, sampled), two worker threads in the crashing session, output path given without extension. Plus "
    "histories of 2..4 sessions with overlapping subject sets and sibling aggregators on two files of one directory (one.tsv/two.tsv, results.model_a.tsv/results.model_b.tsv, run.tsv/run_2.tsv, a.b.tsv/a.tsv, res_panoptica_aggregator_tmp.tsv/res.tsv) or the same file name in two directories, two sessions inside one interpreter with the first object garbage-collected "
    "(interleaved in one process; in two processes where one exits first). Non-trivial = every crash point / history; "
    "distinct = (initial state, variant, k) resp. hash of the history."
    ' Further: subject names that are prefixes, suffixes or substrings of one another, sessions on a relative output path, restart under another PYTHONHASHSEED, continuation (two threads, then a restart) of a file that an earlier run left with 5000-20000 complete rows, with new names that are suffixes / prefixes / substrings of recorded ones; a killed session and its restart in interpreters whose locale encoding is ASCII, with non-ASCII subject names.'
)
ASSUMPTIONS = [
    "process death is modelled by os._exit(137) between two traced operations: user-space buffers are lost, no exit handlers run",
    "mid-write death (torn row) is outside the statement and not injected",
    "a new process has fresh, unlocked module-level locks (re-created in the forked child)",
]
MINIMUM = {"C17.big_file_sessions_judged": 1, "C17.locale_restarts_judged": 2, "C17.crash_points_judged": 100, "C17.sibling_scenarios_judged": 8, "C17.session_histories_judged": 10}
BUDGET_S = {"quick": 1200, "thorough": 900}
SHARDS = {"quick": 16, "thorough": 900}
EXHAUSTIVE = {"quick": True, "thorough": True}

CFG = {"input": "UNMATCHED_INSTANCE", "matcher": {"kind": "naive", "metric": "IOU", "thr": 0.5}, "metrics": ["DSC", "IOU", "RVD"], "global": ["DSC"]}
NAMES = ["s0", "s1", "s2", "s3", "s4", "s5", "subject_name", "s10", "s", "s1 ", "case", "pet_s1", "x s0", "0"]  # some are substrings / prefixes / suffixes of others
STATES = ["absent", "empty", "header_only", "header_rows"]
VARIANTS = ["plain", "graceful", "threads", "noext", "depth2"]


def cases(tier, seed):
    for st in STATES:
        for var in VARIANTS:
            if tier == "quick" and var in ("depth2",) and st not in ("absent", "header_rows"):
                continue
            yield {"fam": "crash", "state": st, "variant": var}
    for i in range(40 if tier == "quick" else 600):
        yield {"fam": "sessions", "i": i}
    for i in range(72 if tier == "quick" else 720):
        yield {"fam": "siblings", "i": i}
    for i in range(4 if tier == "quick" else 32):
        yield {"fam": "hashseed", "i": i}
    for i in range(2 if tier == "quick" else 16):
        yield {"fam": "big_file", "i": i}
    for i in range(4 if tier == "quick" else 40):
        yield {"fam": "locale_restart", "i": i}


def setup(ctx):
    from vf import sched

    sched.install()
    ctx._expected = None


def subject_input(name):
    k = NAMES.index(name)
    refa = np.zeros(16, dtype=np.uint8)
    pred = np.zeros(16, dtype=np.uint8)
    refa[1 : 2 + (5 + k) % 9] = 1
    pred[2 : 3 + (5 + k) % 9] = 1
    refa[12:15] = 2
    pred[12 : 13 + (k % 3)] = 2
    return pred, refa


def read_rows(path):
    with open(path, "r", encoding="utf8", newline="") as fh:
        return [row for row in csv.reader(fh, delimiter="\t", lineterminator="\n")]


def in_child(fn, errfile, timeout=120):
    """run fn in a forked child that looks like a new process; returns exit status (or None on timeout)"""
    from vf import sched

    pid = os.fork()
    if pid == 0:
        try:
            import atexit

            atexit._clear()
            sched.fresh_locks()
            sys.stdout = open(os.devnull, "w")
            fn()
            atexit._run_exitfuncs()  # normal interpreter exit
            os._exit(0)
        except BaseException:  # noqa: BLE001
            try:
                with open(errfile, "a") as fh:
                    fh.write(traceback.format_exc())
            finally:
                os._exit(3)
    deadline = time.monotonic() + timeout
    while True:
        wpid, status = os.waitpid(pid, os.WNOHANG)
        if wpid == pid:
            return os.waitstatus_to_exitcode(status)
        if time.monotonic() > deadline:
            os.kill(pid, 9)
            os.waitpid(pid, 0)
            return None
        time.sleep(0.002)


def session(path, subjects, threads=False, crash_at=None, graceful=False, opsfile=None):
    """one aggregator session: construct on `path`, submit the subjects, return"""
    from panoptica import Panoptica_Aggregator
    from vf import sched

    sched.reset("crash", crash_at=crash_at, graceful=graceful)
    agg = Panoptica_Aggregator(pan.make_evaluator(CFG), path)
    if threads:
        half = [subjects[0::2], subjects[1::2]]
        ts = [threading.Thread(target=lambda ss=ss: [agg.evaluate(*subject_input(s), s) for s in ss]) for ss in half]
        for t in ts:
            t.start()
        for t in ts:
            t.join()
    else:
        for s in subjects:
            agg.evaluate(*subject_input(s), s)
    if opsfile:
        with open(opsfile, "w") as fh:
            json.dump([(e["op"], e["obj"]) for e in sched.T.events if e["phase"] == "before"], fh)
    sched.T.mode = "off"
    if crash_at is not None and sched.T.op_counter + 1 == crash_at:
        sched.T.crash_graceful = False
        sched.die()  # killed after the last operation: no exit handlers


def expected(ctx):
    if ctx._expected is None:
        d = tempfile.mkdtemp(prefix="c17e_", dir=os.environ.get("VERIF_TMP"))
        p = os.path.join(d, "seq.tsv")
        err = os.path.join(d, "err.txt")
        rc = in_child(lambda: session(p, NAMES), err)
        if rc != 0:
            raise RuntimeError("sequential reference session failed: " + (open(err).read() if os.path.exists(err) else str(rc)))
        rows = read_rows(p)
        ctx._expected = (rows[0], {r[0]: r for r in rows[1:]})
    return ctx._expected


def prepare(path, state, ctx):
    header, exp = expected(ctx)
    if state == "absent":
        return []
    with open(path, "w", encoding="utf8", newline="") as fh:
        w = csv.writer(fh, delimiter="\t", lineterminator="\n")
        if state in ("header_only", "header_rows"):
            w.writerow(header)
        if state == "header_rows":
            w.writerow(exp["s4"])
            w.writerow(exp["s0"])
            return ["s4", "s0"]
    return []


def judge_file(ctx, path, subjects, det, feats):
    """final file equals an uninterrupted run: header first and once, one row per subject, rows identical"""
    header, exp = expected(ctx)

    def bad(kind, **extra):
        ctx.viol(kind, dict(det, **extra), features=dict(feats, kind=kind))
        return False

    if not os.path.exists(path):
        return bad("output_file_missing", path=os.path.basename(path), dir=sorted(os.listdir(os.path.dirname(path))))
    rows = read_rows(path)
    if not rows or rows[0] != header:
        return bad("header_missing_or_not_first", first_row=rows[0] if rows else None, n_rows=len(rows))
    data = rows[1:]
    if any(r == header for r in data):
        return bad("header_present_twice")
    names = [r[0] if r else None for r in data]
    for s in subjects:
        if names.count(s) == 0:
            return bad("subject_missing_after_recovery", subject=s, rows=names)
        if names.count(s) > 1:
            return bad("subject_duplicated_after_recovery", subject=s, rows=names)
    for r in data:
        if r[0] not in subjects:
            return bad("unexpected_row", row=r)
        if r != exp[r[0]]:
            return bad("row_differs_from_uninterrupted_run", row=r, expected=exp[r[0]])
    return True


def crash_enumeration(ctx, state, variant):
    subjects = ["s0", "s1", "s2"]
    d0 = tempfile.mkdtemp(prefix="c17c_", dir=os.environ.get("VERIF_TMP"))
    fname = "out" if variant == "noext" else "out.tsv"
    real_name = "out.tsv"
    # dry run: count and name the operations
    dd = os.path.join(d0, "dry")
    os.makedirs(dd)
    pre = prepare(os.path.join(dd, real_name), state, ctx)
    opsfile = os.path.join(dd, "ops.json")
    rc = in_child(lambda: session(os.path.join(dd, fname), subjects, threads=(variant == "threads"), opsfile=opsfile), os.path.join(dd, "err.txt"))
    feats0 = {"state": state, "variant": variant}
    if rc != 0 or not os.path.exists(opsfile):
        err = open(os.path.join(dd, "err.txt")).read()[-1500:] if os.path.exists(os.path.join(dd, "err.txt")) else str(rc)
        ctx.viol("uninterrupted_session_failed", {"state": state, "variant": variant, "error": err}, features=dict(feats0, kind="uninterrupted_session_failed"))
        return
    with open(opsfile) as fh:
        ops = json.load(fh)
    n = len(ops)
    ctx.count("C17.operations_in_session", n)
    # the uninterrupted run itself must be right
    judge_file(ctx, os.path.join(dd, real_name), sorted(set(subjects + pre)), {"state": state, "variant": variant, "crash_at": None}, dict(feats0, crash_op="none"))
    ks = list(range(1, n + 2))
    if variant == "depth2":
        ks = ks[:: 3 if ctx.tier == "quick" else 1]
    for k in ks:
        d = os.path.join(d0, f"k{k}")
        os.makedirs(d)
        path, real = os.path.join(d, fname), os.path.join(d, real_name)
        prepare(real, state, ctx)
        err = os.path.join(d, "err.txt")
        opname = "%s:%s" % tuple(ops[k - 1]) if k <= n else "after_last"
        rc = in_child(lambda: session(path, subjects, threads=(variant == "threads"), crash_at=k, graceful=(variant == "graceful")), err)
        ctx.count("evaluations")
        det = {"state": state, "variant": variant, "crash_at": k, "crash_before_op": opname, "n_ops": n}
        feats = dict(feats0, crash_op=opname.split(":")[0], crash_obj=("buffer" if "tmp" in opname else "output" if "out" in opname else opname.split(":")[-1]))
        if rc is None:
            ctx.count("C17.inconclusive_watchdog")
            continue
        if rc == 3:
            ctx.viol("session_raised_before_crash_point", dict(det, error=open(err).read()[-1500:]), features=dict(feats, kind="session_raised"))
            continue
        if variant != "threads" and rc == 0 and k <= n and variant != "graceful":
            ctx.count("C17.crash_point_not_reached")
        # recovery (depth 2: the recovery session is killed too, then a third one runs)
        if variant == "depth2":
            k2 = 1 + (k * 7) % max(1, n)
            rc2 = in_child(lambda: session(path, subjects, crash_at=k2), err)
            det["second_crash_at"] = k2
        rc3 = in_child(lambda: session(path, subjects), err)
        if rc3 is None:
            ctx.count("C17.inconclusive_watchdog")
            continue
        if rc3 != 0:
            ctx.viol("recovery_raised", dict(det, error=open(err).read()[-1500:] if os.path.exists(err) else rc3), features=dict(feats, kind="recovery_raised"))
            continue
        ctx.count("C17.crash_points_judged")
        ctx.count("f:C17.crash_before." + opname.split(":")[0])
        ctx.nontrivial(state, variant, k)
        judge_file(ctx, real, sorted(set(subjects + pre)), det, feats)
    ctx.sample({"state": state, "variant": variant, "operations": n, "crash_points": [("%s:%s" % tuple(o)) for o in ops[:40]]})


def same_process_sessions(ctx, i):
    """two aggregator sessions on one file inside one interpreter: the variable is simply re-bound (the first
    object becomes garbage while the second is in use)"""
    import gc

    r = gen.rng(ctx.seed, "c17g", i)
    d = tempfile.mkdtemp(prefix="c17g_", dir=os.environ.get("VERIF_TMP"))
    path = os.path.join(d, "res.tsv")
    subs1 = [str(x) for x in r.choice(NAMES, size=int(r.integers(1, 4)), replace=False)]
    subs2 = sorted(set(subs1) | {str(x) for x in r.choice(NAMES, size=int(r.integers(1, 4)), replace=False)})
    err = os.path.join(d, "err.txt")

    def fn():
        from panoptica import Panoptica_Aggregator
        from vf import sched

        sched.reset("log")
        try:
            raise ValueError("a caught exception keeps frames (and their locals) alive in reference cycles")
        except ValueError as e:
            keep = e  # noqa: F841
        aggregator = Panoptica_Aggregator(pan.make_evaluator(CFG), path)
        for s_ in subs1:
            aggregator.evaluate(*subject_input(s_), s_)
        aggregator = Panoptica_Aggregator(pan.make_evaluator(CFG), path)
        gc.collect()
        for s_ in subs2:
            aggregator.evaluate(*subject_input(s_), s_)
            if i % 2:
                gc.collect()

    rc = in_child(fn, err)
    ctx.count("evaluations")
    det = {"first_session": subs1, "second_session": subs2}
    feats = {"variant": "two_sessions_in_one_process"}
    if rc != 0:
        ctx.viol("session_raised", dict(det, error=open(err).read()[-1500:] if os.path.exists(err) else rc), features=dict(feats, kind="session_raised"))
        return
    ctx.count("C17.session_histories_judged")
    ctx.nontrivial("same_process", tuple(subs1), tuple(subs2))
    judge_file(ctx, path, subs2, det, feats)


def session_history(ctx, i):
    if i % 4 == 3:
        return same_process_sessions(ctx, i)
    r = gen.rng(ctx.seed, "c17s", i)
    d = tempfile.mkdtemp(prefix="c17h_", dir=os.environ.get("VERIF_TMP"))
    noext = i % 5 == 4
    path = os.path.join(d, "res" if noext else "res.tsv")
    real = os.path.join(d, "res.tsv")
    state = STATES[i % 4]
    pre = prepare(real, state, ctx)
    n_sessions = int(r.integers(2, 5))
    hist = []
    allsub = set(pre)
    err = os.path.join(d, "err.txt")
    det = {"state": state, "noext": noext}
    feats = {"state": state, "variant": "sessions" + ("_noext" if noext else "")}
    for s in range(n_sessions):
        subs = [str(x) for x in r.choice(NAMES, size=int(r.integers(1, 5)), replace=False)]
        crash = None
        if r.random() < 0.4:
            crash = int(r.integers(1, 40))
        hist.append({"subjects": subs, "crash_at": crash})
        if i % 7 == 5:
            # the output file is named relative to the working directory, and every session starts in that directory
            feats["relative_path"] = True
            rc = in_child(lambda: (os.chdir(d), session(os.path.basename(path), subs, crash_at=crash)), err)
        else:
            rc = in_child(lambda: session(path, subs, crash_at=crash), err)
        ctx.count("evaluations")
        if rc == 3:
            ctx.viol("session_raised", dict(det, history=hist, error=open(err).read()[-1500:]), features=dict(feats, kind="session_raised"))
            return
        if crash is None or rc == 0:
            allsub |= set(subs)
        else:
            # killed: resubmit in a final recovery session below
            allsub |= set(subs)
    final = sorted(allsub)
    rc = in_child(lambda: session(path, final), err)
    if rc != 0:
        ctx.viol("recovery_raised", dict(det, history=hist, error=open(err).read()[-1500:] if os.path.exists(err) else rc), features=dict(feats, kind="recovery_raised"))
        return
    ctx.count("C17.session_histories_judged")
    ctx.nontrivial("sessions", json.dumps(hist), state, noext)
    judge_file(ctx, real, final, dict(det, history=hist), feats)
    if i % 8 == 0:
        ctx.sample({"sessions": hist, "initial_state": state})


def siblings(ctx, i):
    from panoptica import Panoptica_Aggregator
    from vf import sched

    r = gen.rng(ctx.seed, "c17sib", i)
    d = tempfile.mkdtemp(prefix="c17b_", dir=os.environ.get("VERIF_TMP"))
    n1, n2 = [("one.tsv", "two.tsv"), ("results.model_a.tsv", "results.model_b.tsv"), ("run.tsv", "run_2.tsv"), ("a.b.tsv", "a.tsv"),
              ("model_a/results.tsv", "model_b/results.tsv"), ("result.tsv", "results.tsv"), ("pred_t.tsv", "pred_v.tsv"), ("x.tsv", "xt.tsv"),
              # an output file whose name looks like a temporary file of its neighbour (whatever the library calls those)
              ("res_panoptica_aggregator_tmp.tsv", "res.tsv"), ("res.tsv.panoptica_aggregator_tmp.tsv", "res.tsv")][(i // 3) % 10]
    one, two = os.path.join(d, n1), os.path.join(d, n2)
    for pth in (one, two):
        os.makedirs(os.path.dirname(pth), exist_ok=True)
    subs1 = [str(x) for x in r.choice(NAMES, size=int(r.integers(2, 5)), replace=False)]
    subs2 = [str(x) for x in r.choice(NAMES, size=int(r.integers(2, 5)), replace=False)]
    if i % 3 == 0:
        subs2 = list(subs1)  # the same subject names go to both files
    err = os.path.join(d, "err.txt")
    mode = ["interleaved_one_process", "two_processes_one_exits_first", "sequential_processes"][i % 3]
    det = {"mode": mode, "one": subs1, "two": subs2, "files": [n1, n2]}
    feats = {"variant": "siblings", "mode": mode, "same_directory": True, "shared_names": bool(set(subs1) & set(subs2))}
    ctx.count("evaluations")

    if mode == "interleaved_one_process":
        def fn():
            sched.reset("log")
            a = Panoptica_Aggregator(pan.make_evaluator(CFG), one)
            b = Panoptica_Aggregator(pan.make_evaluator(CFG), two)
            for k in range(max(len(subs1), len(subs2))):
                if k < len(subs1):
                    a.evaluate(*subject_input(subs1[k]), subs1[k])
                if k < len(subs2):
                    b.evaluate(*subject_input(subs2[k]), subs2[k])

        rc = in_child(fn, err)
    elif mode == "two_processes_one_exits_first":
        # process A creates its aggregator, evaluates one subject, then process B runs completely and exits
        # (its exit handlers fire), then A continues
        flag = os.path.join(d, "b_done")

        def fa():
            sched.reset("log")
            a = Panoptica_Aggregator(pan.make_evaluator(CFG), one)
            a.evaluate(*subject_input(subs1[0]), subs1[0])
            rcb = in_child(fb, err)
            if rcb != 0:
                raise RuntimeError("sibling process failed: %s" % rcb)
            for s in subs1[1:]:
                a.evaluate(*subject_input(s), s)

        def fb():
            sched.reset("log")
            b = Panoptica_Aggregator(pan.make_evaluator(CFG), two)
            for s in subs2:
                b.evaluate(*subject_input(s), s)

        rc = in_child(fa, err)
    else:
        rc = in_child(lambda: session(one, subs1), err)
        if rc == 0:
            rc = in_child(lambda: session(two, subs2), err)
    if rc is None:
        ctx.count("C17.inconclusive_watchdog")
        return
    if rc != 0:
        ctx.viol("sibling_session_raised", dict(det, error=open(err).read()[-1500:] if os.path.exists(err) else rc), features=dict(feats, kind="sibling_session_raised"))
        return
    ctx.count("C17.sibling_scenarios_judged")
    ctx.nontrivial("siblings", mode, tuple(subs1), tuple(subs2))
    ok = judge_file(ctx, one, sorted(set(subs1)), dict(det, file=n1), feats)
    if ok:
        judge_file(ctx, two, sorted(set(subs2)), dict(det, file=n2), feats)


HASHSEED_SCRIPT = r"""
import os, sys, json
import numpy as np
from panoptica import Panoptica_Evaluator, Panoptica_Aggregator, InputType, NaiveThresholdMatching
from panoptica.utils.segmentation_class import SegmentationClassGroups, LabelGroup
path, subjects, kill_after = sys.argv[1], json.loads(sys.argv[2]), int(sys.argv[3])
groups = SegmentationClassGroups({"liver": LabelGroup([1]), "kidney": LabelGroup([2]), "spleen": LabelGroup([3]), "aorta": LabelGroup([4])})
ev = Panoptica_Evaluator(expected_input=InputType.UNMATCHED_INSTANCE, instance_matcher=NaiveThresholdMatching(), segmentation_class_groups=groups)
agg = Panoptica_Aggregator(ev, path)
for n, s in enumerate(subjects):
    if n == kill_after:
        os._exit(137)
    k = sum(map(ord, s)) % 5
    ref = np.zeros(24, np.uint8); pred = np.zeros(24, np.uint8)
    for g in range(4):
        ref[6 * g : 6 * g + 4] = g + 1
        pred[6 * g + (g + k) % 2 : 6 * g + 4] = g + 1
    agg.evaluate(pred, ref, s)
"""


def hashseed_sessions(ctx, i):
    """a session killed half way and restarted in a NEW interpreter with another string hash seed (several
    groups, so that anything ordered by a set / dict of names would differ between the two processes)"""
    import subprocess

    from vf import harness

    d = tempfile.mkdtemp(prefix="c17hs_", dir=os.environ.get("VERIF_TMP"))
    path = os.path.join(d, "out.tsv")
    script = os.path.join(d, "session.py")
    with open(script, "w") as fh:
        fh.write(HASHSEED_SCRIPT)
    subjects = ["a1", "b2", "c3", "d4"]
    ctx.count("evaluations")
    outs = []
    for seed, kill in ((str(1 + i), 2), (str(101 + 7 * i), -1)):
        env = dict(os.environ, PYTHONHASHSEED=seed, PYTHONPATH=pan.REPO, PANOPTICA_CITATION_REMINDER="false")
        p = subprocess.run([harness.PY, "-B"] + harness.own_flags() + [script, path, json.dumps(subjects), str(kill)], env=env, capture_output=True, text=True, timeout=300, cwd=d)
        outs.append((p.returncode, p.stderr[-600:]))
    det = {"subjects": subjects, "hash_seeds": [1 + i, 101 + 7 * i], "exit": [o[0] for o in outs]}
    feats = {"variant": "restart_in_new_interpreter_with_other_hash_seed"}
    if outs[0][0] != 137 or outs[1][0] != 0:
        ctx.viol("recovery_raised", dict(det, error=outs[1][1] if outs[1][0] != 0 else outs[0][1]), features=dict(feats, kind="recovery_raised"))
        return
    rows = read_rows(path)
    ctx.count("C17.session_histories_judged")
    ctx.count("C17.new_interpreter_restarts_judged")
    ctx.nontrivial("hashseed", i)
    names = [r[0] for r in rows[1:]]
    if rows[0][0] != "subject_name" or any(r == rows[0] for r in rows[1:]):
        ctx.viol("header_missing_or_not_first", dict(det, first_row=rows[0][:4]), features=dict(feats, kind="header_missing_or_not_first"))
    elif sorted(names) != sorted(subjects):
        ctx.viol("subject_missing_after_recovery" if len(names) < len(subjects) else "subject_duplicated_after_recovery", dict(det, rows=names), features=dict(feats, kind="rows"))
    elif any(len(r) != len(rows[0]) for r in rows[1:]):
        ctx.viol("row_differs_from_uninterrupted_run", dict(det, widths=[len(r) for r in rows]), features=dict(feats, kind="width"))
    else:
        # values of the rows written before and after the restart line up under the same header
        st_env = dict(os.environ, PYTHONHASHSEED="0", PYTHONPATH=pan.REPO)
        chk = subprocess.run([harness.PY, "-B"] + harness.own_flags() + ["-c", "import sys,json;from panoptica import Panoptica_Statistic as S;s=S.from_file(sys.argv[1]);print(json.dumps({n:{g:s.get_one_subject(n)[g]['num_ref_instances'] for g in s.groupnames} for n in s.subjectnames}))", path],
                             env=st_env, capture_output=True, text=True, timeout=300)
        try:
            vals = json.loads(chk.stdout.strip().splitlines()[-1])
            bad = {n: v for n, v in vals.items() if any(x != 1.0 for x in v.values())}
            if bad:
                ctx.viol("row_differs_from_uninterrupted_run", dict(det, num_ref_instances=bad), features=dict(feats, kind="values_under_wrong_group"))
        except Exception:  # noqa: BLE001
            ctx.viol("recovery_raised", dict(det, error=chk.stderr[-600:]), features=dict(feats, kind="loader"))


def big_file_sessions(ctx, i):
    """a file left by a long earlier run (thousands of complete rows; its list of recorded names alone is beyond 64 KiB) is
    continued: first by a session with two threads, then by a restart that submits everything again.  Some new names are
    suffixes, prefixes or substrings of recorded ones.  Every new subject gets exactly one row, old rows stay as they are."""
    header, exp = expected(ctx)
    r = gen.rng(ctx.seed, "c17big", i)
    n_old = [6000, 9000, 20000, 5000][i % 4] + int(r.integers(0, 50))
    d = tempfile.mkdtemp(prefix="c17b_", dir=os.environ.get("VERIF_TMP"))
    path = os.path.join(d, "cohort.tsv")
    err = os.path.join(d, "err.txt")
    new = [str(x) for x in r.permutation(NAMES)[: int(r.integers(4, 9))]]
    old = [f"patient_{j:06d}" for j in range(n_old)]
    # recorded names that end with, start with or contain a name submitted later
    for k, n in enumerate(new):
        old[int(r.integers(0, n_old))] = ["pre_" + n, n + "_post", "a " + n + " b", "x" + n][k % 4] if n != "subject_name" else "the subject_name"
    old = list(dict.fromkeys(o for o in old if o not in NAMES))
    with open(path, "w", encoding="utf8", newline="") as fh:
        w = csv.writer(fh, delimiter="\t", lineterminator="\n")
        w.writerow(header)
        for j, o in enumerate(old):
            w.writerow([o] + exp[NAMES[j % 6]][1:])
    det = {"family": "big_file", "n_recorded_before": len(old), "new": new}
    feats = {"family": "big_file"}
    first = new[: max(2, len(new) // 2)]
    rc = in_child(lambda: session(path, first, threads=bool(i % 2 == 0)), err, timeout=600)
    if rc is None:
        ctx.count("C17.inconclusive_watchdog")
        shutil.rmtree(d, ignore_errors=True)
        return
    if rc != 0:
        ctx.viol("session_raised", dict(det, session=1, tb=open(err).read()[-600:] if os.path.exists(err) else str(rc)), features=dict(feats, kind="session_raised"))
        shutil.rmtree(d, ignore_errors=True)
        return
    rc = in_child(lambda: session(path, new + first[:1], threads=bool(i % 2)), err, timeout=600)
    if rc is None:
        ctx.count("C17.inconclusive_watchdog")
        shutil.rmtree(d, ignore_errors=True)
        return
    if rc != 0:
        ctx.viol("session_raised", dict(det, session=2, tb=open(err).read()[-600:] if os.path.exists(err) else str(rc)), features=dict(feats, kind="session_raised"))
        shutil.rmtree(d, ignore_errors=True)
        return
    ctx.count("evaluations")
    rows = read_rows(path)
    ok = True
    if not rows or rows[0] != header:
        ctx.viol("header_missing_or_not_first", dict(det, first_row=rows[0] if rows else None), features=dict(feats, kind="header_missing_or_not_first"))
        ok = False
    elif [x[0] for x in rows[1 : 1 + len(old)]] != old or any(x[1:] != exp[NAMES[j % 6]][1:] for j, x in enumerate(rows[1 : 1 + len(old)])):
        ctx.viol("earlier_rows_changed", dict(det, n_rows=len(rows)), features=dict(feats, kind="earlier_rows_changed"))
        ok = False
    else:
        tail = rows[1 + len(old) :]
        names = [x[0] if x else None for x in tail]
        for n in new:
            if names.count(n) == 0:
                ctx.viol("subject_missing_after_recovery", dict(det, subject=n, new_rows=names), features=dict(feats, kind="subject_missing_after_recovery"))
                ok = False
                break
            if names.count(n) > 1:
                ctx.viol("subject_duplicated_after_recovery", dict(det, subject=n, new_rows=names), features=dict(feats, kind="subject_duplicated_after_recovery"))
                ok = False
                break
        if ok:
            for x in tail:
                if x[0] not in new:
                    ctx.viol("unexpected_row", dict(det, row=x), features=dict(feats, kind="unexpected_row"))
                    ok = False
                    break
                if x != exp[x[0]]:
                    ctx.viol("row_differs_from_uninterrupted_run", dict(det, row=x, expected=exp[x[0]]), features=dict(feats, kind="row_differs_from_uninterrupted_run"))
                    ok = False
                    break
    ctx.count("C17.big_file_sessions_judged")
    ctx.count("C17.rows_recorded_before_big_file_sessions", len(old))
    if ok:
        ctx.nontrivial("big_file", len(old), json.dumps(new))
    shutil.rmtree(d, ignore_errors=True)


def locale_restart(ctx, i):
    """sessions in interpreters whose locale encoding is ASCII, non-ASCII subject names: a first session is killed after k
    subjects, a second interpreter submits everything again; the reference is an uninterrupted session of the same subjects"""
    import subprocess
    from vf import harness
    from vf.helpers import locale_restart as LR

    r = gen.rng(ctx.seed, "c17loc", i)
    d = tempfile.mkdtemp(prefix="c17l_", dir=os.environ.get("VERIF_TMP"))
    env = dict(os.environ, LC_ALL="C", LANG="C", PYTHONUTF8="0", PYTHONCOERCECLOCALE="0", PYTHONIOENCODING="utf-8")
    n = int(r.integers(3, len(LR.SUBJECTS) + 1))
    idx = [int(x) for x in r.permutation(len(LR.SUBJECTS))[:n]]
    kill_after = int(r.integers(1, n))

    def sess(path, kill, ids, env=env):
        p = subprocess.run([harness.PY, "-B"] + harness.own_flags() + ["-m", "vf.helpers.locale_restart", path, str(kill)] + [str(x) for x in ids],
                           env=env, cwd=harness.VERIF, capture_output=True, text=True, timeout=600, encoding="utf-8")
        try:
            return json.loads(p.stdout.strip().splitlines()[-1])
        except Exception:  # noqa: BLE001
            return {"HELPER": (p.stdout + p.stderr)[-800:]}

    ref_path, path = os.path.join(d, "ref.tsv"), os.path.join(d, "out.tsv")
    det = {"family": "locale_restart", "subjects": [LR.SUBJECTS[k] for k in idx], "killed_after": kill_after}
    feats = {"family": "locale_restart"}
    ctx.count("evaluations")
    try:
        # the uninterrupted run: the same subjects in an interpreter with the usual UTF-8 locale (rows do not depend on the locale)
        o0 = sess(ref_path, -1, idx, env=dict(os.environ, PYTHONIOENCODING="utf-8"))
        if "HELPER" in o0 or "ERR" in o0:
            ctx.errors.append({"case": {"fam": "locale_restart", "i": i}, "tb": "uninterrupted reference session failed: " + str(o0)[:800]})
            return
        want = read_rows(ref_path)
        o1 = sess(path, kill_after, idx)
        if o1.get("encoding", "").lower().replace("-", "") == "utf8":
            ctx.count("C17.locale_helper_unavailable")  # this platform coerces the locale: nothing to judge
            return
        o2 = sess(path, -1, idx[::-1] if i % 2 else idx)
        if "HELPER" in o1 or "HELPER" in o2:
            ctx.errors.append({"case": {"fam": "locale_restart", "i": i}, "tb": "locale restart helper failed: " + str(o1.get("HELPER") or o2.get("HELPER"))})
            return
        ctx.count("C17.locale_restarts_judged")
        if "ERR" in o1 or "ERR" in o2:
            ctx.viol("session_raised", dict(det, session=1 if "ERR" in o1 else 2, exc=o1.get("ERR") or o2.get("ERR")), features=dict(feats, kind="session_raised"))
            return
        got = read_rows(path)
        if not got or got[0] != want[0]:
            ctx.viol("header_missing_or_not_first", dict(det, first_row=got[0] if got else None), features=dict(feats, kind="header_missing_or_not_first"))
            return
        names = [x[0] for x in got[1:]]
        exp = {x[0]: x for x in want[1:]}
        for k in idx:
            s_ = LR.SUBJECTS[k]
            if names.count(s_) != 1:
                kind = "subject_missing_after_recovery" if names.count(s_) == 0 else "subject_duplicated_after_recovery"
                ctx.viol(kind, dict(det, subject=s_, rows=names), features=dict(feats, kind=kind))
                return
        for x in got[1:]:
            if x[0] not in exp:
                ctx.viol("unexpected_row", dict(det, row=x), features=dict(feats, kind="unexpected_row"))
                return
            if x != exp[x[0]]:
                ctx.viol("row_differs_from_uninterrupted_run", dict(det, row=x, expected=exp[x[0]]), features=dict(feats, kind="row_differs_from_uninterrupted_run"))
                return
        ctx.nontrivial("locale_restart", json.dumps(det, sort_keys=True))
    finally:
        shutil.rmtree(d, ignore_errors=True)


def run(case, ctx):
    fam = case["fam"]
    if fam == "big_file":
        return big_file_sessions(ctx, case["i"])
    if fam == "locale_restart":
        return locale_restart(ctx, case["i"])
    if fam == "hashseed":
        return hashseed_sessions(ctx, case["i"])
    if fam == "crash":
        crash_enumeration(ctx, case["state"], case["variant"])
    elif fam == "sessions":
        session_history(ctx, case["i"])
    else:
        siblings(ctx, case["i"])
