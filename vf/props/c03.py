"""C03 -- instance matching is a sound, conflict-free, maximal best-first assignment."""

from __future__ import annotations

import numpy as np

from vf import gen, monitors, pan, ref

ID = "C03"
LEVEL = "exploration"
TECHNIQUE = "runtime monitoring: post-condition monitor on the real _match_instances (independent score table + best-first consistency checker) and threshold-monotonicity metamorphic runs"
RULE = (
    "cases = (unmatched instance-map pair, metric in IoU/Dice/ASSD, threshold, allow_many_to_one); tiny spaces "
    "enumerated completely (all pairs of 1-D maps of length<=4(5 thorough) and 2x2 maps over {0,1,2}; 2x3 maps over {0,1,2} "
    "sampled/strided), every threshold equivalence class of the input incl. thresholds exactly equal to a score, both "
    "many-to-one settings; plus generated split/merged/shifted/tied families. Non-trivial = at least one candidate pair "
    "(overlap); distinct = hash of (arrays, metric, threshold, many_to_one)."
    ' Further families: nearly tied candidates on large instances; pair codes at 2^8 / 2^16 / 2^32; thousands of candidate pairs in one call; buffers refilled in place between two consecutive calls of a long-lived matcher; the same pair object through threshold sweeps.'
)
ASSUMPTIONS = [
    "IoU/Dice scores are quotients of exact integers, so threshold comparisons are decided exactly; ASSD in 2-D/3-D is compared with a 1e-9 guard band, in 1-D exactly (all 1-D ASSD values are multiples of 1/4)",
    "the matcher's output is read from the InstanceLabelMap it returns",
]
MINIMUM = {"C03.checked": 2000, "C03.monotonicity_judged": 300}
BUDGET_S = {"quick": 1200, "thorough": 900}

TINY = {"t1d3": ((3,), 3, 1), "t1d4": ((4,), 3, 1), "t2x2": ((2, 2), 3, 1), "t1d5": ((5,), 3, 0), "t2x3": ((2, 3), 3, 0)}
EXHAUSTIVE = {"quick": False, "thorough": False}


def cases(tier, seed):
    for name, (shape, alpha, q) in TINY.items():
        n = gen.tiny_count(shape, alpha)
        if tier == "quick":
            if not q:
                continue
            step = 1
        else:
            step = 1 if name != "t2x3" else 23
        for i in range(seed % step if step > 1 else 0, n, step):
            yield {"fam": name, "i": i}
    for i in range(1500 if tier == "quick" else 40000):
        yield {"fam": "rand", "i": i}
    for i in range(300 if tier == "quick" else 6000):
        yield {"fam": "compete", "i": i}
    for i in range(540 if tier == "quick" else 5400):
        yield {"fam": "paircode", "i": i}
    for i in range(32 if tier == "quick" else 320):
        yield {"fam": "neartie", "i": i}
    for i in range(2 if tier == "quick" else 12):
        yield {"fam": "manypairs", "i": i}


def setup(ctx):
    monitors.install(ctx, {"C03"})


def matched_pairs(lib_M):
    return set(lib_M.items())


def run_pair(ctx, pred, refa, fam):
    from panoptica.utils.processing_pair import UnmatchedInstancePair

    ndim = refa.ndim
    pi, ri = ref.instances_of(ref.vox(pred)), ref.instances_of(ref.vox(refa))
    key = gen.arr_key(pred, refa)
    monitors.S.exact = ndim == 1
    for metric in ("IOU", "DSC", "ASSD"):
        table = ref.score_table(metric, ri, pi, ndim)
        dec = ref.METRIC_DECREASING[metric]
        exact = metric != "ASSD" or ndim == 1
        ths = gen.threshold_classes(table.values(), dec, exact=exact, lo=0.0, hi=None if dec else 1.0)
        # order from loose to strict
        ths = sorted(ths, reverse=dec)
        for m2o in (False, True):
            prev = None
            for thr in ths:
                matcher = pan.make_matcher({"kind": "naive", "metric": metric, "thr": thr, "m2o": m2o})
                ctx.count("evaluations")
                monitors.S.last_match = None
                try:
                    with pan.quiet():
                        matcher.match_instances(UnmatchedInstancePair(pred.copy(), refa.copy()))
                except Exception:  # recorded by the monitor as matcher_raised
                    prev = None
                    continue
                lm = monitors.S.last_match
                if lm is None:
                    ctx.count("no_labelmap")
                    continue
                if table:
                    ctx.nontrivial(key, metric, thr, m2o)
                cur = matched_pairs(lm["M"])
                elig = ref.eligibility(metric, table, thr, exact)
                tie = any(v is None for v in elig.values()) or ref.has_conflicting_tie(metric, table, elig, m2o)
                if prev is not None and not tie and not prev[1]:
                    ctx.count("C03.monotonicity_judged")
                    if not cur <= prev[0]:
                        ctx.viol(
                            "stricter_threshold_added_a_match",
                            {"pred": pred, "ref": refa, "metric": metric, "m2o": m2o, "loose": prev[2], "strict": thr,
                             "loose_pairs": sorted(prev[0]), "strict_pairs": sorted(cur)},
                            features={"metric": metric, "many_to_one": m2o},
                        )
                prev = (cur, tie, thr)
    monitors.S.exact = False
    if ctx.cases_run % 3 == 0:
        reuse_sweep(ctx, pred, refa, pi, ri)
    # preallocated buffers refilled per case (same array objects, new content) and long-lived matcher objects:
    # every call is judged by the monitor against the content the arrays have at the time of the call
    store = ctx.__dict__.setdefault("_reuse", {"matchers": {}, "bufs": {}})
    key_b = (pred.shape, str(pred.dtype))
    if key_b not in store["bufs"]:
        store["bufs"][key_b] = (np.zeros(pred.shape, pred.dtype), np.zeros(refa.shape, refa.dtype))
    bp, br = store["bufs"][key_b]
    # second content for the same buffers: the prediction mirrored along its first axis (other overlaps, same labels)
    variant = pred[::-1]
    for conf in (("IOU", 0.5, False), ("DSC", 0.3, True), ("IOU", 0.1, False)):
        if conf not in store["matchers"]:
            store["matchers"][conf] = pan.make_matcher({"kind": "naive", "metric": conf[0], "thr": conf[1], "m2o": conf[2]})
        for content in (pred, variant):
            np.copyto(bp, content)
            np.copyto(br, refa)
            ctx.count("evaluations")
            ctx.count("C03.calls_on_refilled_buffers")
            try:
                with pan.quiet():
                    store["matchers"][conf].match_instances(UnmatchedInstancePair(bp, br))
            except Exception:  # noqa: BLE001  (recorded by the monitor)
                pass
    if pi and ri:
        ctx.sample({"family": fam, "pred": pred, "ref": refa})


def reuse_sweep(ctx, pred, refa, pi, ri):
    """the same UnmatchedInstancePair object is matched repeatedly: strict -> loose threshold sweep, another
    matcher class in between, and the same matcher object twice (each call is judged by the monitor)"""
    from panoptica.utils.processing_pair import UnmatchedInstancePair

    ndim = refa.ndim
    up = UnmatchedInstancePair(pred.copy(), refa.copy())
    for metric in ("IOU", "DSC"):
        table = ref.score_table(metric, ri, pi, ndim)
        ths = sorted(gen.threshold_classes(table.values(), False, exact=True, lo=0.0, hi=1.0), reverse=True)  # strict -> loose
        last = None
        for k, thr in enumerate(ths):
            matcher = pan.make_matcher({"kind": "naive", "metric": metric, "thr": thr, "m2o": bool(k % 2)})
            ctx.count("evaluations")
            ctx.count("C03.reuse_calls")
            try:
                with pan.quiet():
                    matcher.match_instances(up)
                    if k % 4 == 1:
                        pan.make_matcher({"kind": "merge", "metric": metric, "thr": thr}).match_instances(up)
                    if k % 4 == 2:
                        matcher.match_instances(up)  # same matcher, same pair again
            except Exception:  # noqa: BLE001  (recorded by the monitor)
                pass


def run_neartie(ctx, pred, refa):
    """large instances, competing candidates whose scores differ in the 7th-9th digit: a few thresholds only"""
    from panoptica.utils.processing_pair import UnmatchedInstancePair

    for metric in ("IOU", "DSC"):
        for thr in (0.3, 0.05):
            for m2o in (False, True):
                ctx.count("evaluations")
                try:
                    with pan.quiet():
                        pan.make_matcher({"kind": "naive", "metric": metric, "thr": thr, "m2o": m2o}).match_instances(UnmatchedInstancePair(pred.copy(), refa.copy()))
                except Exception:  # noqa: BLE001
                    pass
                ctx.nontrivial(gen.arr_key(pred, refa), metric, thr, m2o)


def compete_pair(seed, i):
    """one prediction spanning several references / one reference covered by several
    predictions with controlled overlap sizes, incl. exact ties"""
    r = gen.rng(seed, "compete", i)
    n = int(r.integers(8, 30))
    refa = np.zeros(n, dtype=np.uint8)
    pred = np.zeros(n, dtype=np.uint8)
    k = int(r.integers(2, 5))
    cuts = sorted(set(int(x) for x in r.integers(1, n, size=k)))
    prev = 0
    for lab, c in enumerate(cuts + [n], start=1):
        refa[prev:c] = lab if r.random() < 0.9 else 0
        prev = c
    k2 = int(r.integers(1, 5))
    cuts2 = sorted(set(int(x) for x in r.integers(1, n, size=k2)))
    prev = 0
    for lab, c in enumerate(cuts2 + [n], start=1):
        pred[prev:c] = lab if r.random() < 0.9 else 0
        prev = c
    if i % 3 == 1:  # 2-D version: stack rows with small differences
        refa = np.stack([refa, refa])
        pred = np.stack([pred, np.roll(pred, 1)])
    if i % 5 == 0:  # mirror symmetric -> exact ties
        refa = np.concatenate([refa, refa[..., ::-1]], axis=-1)
        pred = np.concatenate([pred, pred[..., ::-1]], axis=-1)
    return pred, refa


def run(case, ctx):
    fam, i = case["fam"], case["i"]
    if fam in TINY:
        shape, alpha, _ = TINY[fam]
        pred, refa = gen.tiny_pair(shape, alpha, i)
    elif fam == "rand":
        dtype = [np.uint8, np.uint16, np.uint32, np.uint64][i % 4]
        pred, refa, f = gen.random_pair(ctx.seed, i, dtype=dtype)
        ctx.count("f:family." + f)
    elif fam == "paircode":
        pred, refa = gen.paircode_boundary_pair(ctx.seed, i)
        ctx.count("f:family.paircode_boundary")
    elif fam == "manypairs":
        # several thousand candidate pairs in one call (work lists that are split into batches / per worker)
        from panoptica.utils.processing_pair import UnmatchedInstancePair

        n = [4100, 4300, 4097, 4096, 8200, 4095, 5000, 4200, 6000, 4099, 8193, 4500][i % 12]
        refa = np.zeros(3 * n + 2, dtype=np.uint32)
        pred = np.zeros_like(refa)
        lab = np.arange(1, n + 1, dtype=np.uint32)
        refa[0 : 3 * n : 3] = lab
        refa[1 : 3 * n : 3] = lab
        pred[1 : 3 * n : 3] = lab[::-1]
        pred[2 : 3 * n : 3] = lab[::-1]
        ctx.count("evaluations")
        ctx.count("f:family.thousands_of_candidate_pairs")
        try:
            with pan.quiet():
                pan.make_matcher({"kind": "naive", "metric": ["IOU", "DSC"][i % 2], "thr": 0.3, "m2o": bool(i % 3 == 2)}).match_instances(UnmatchedInstancePair(pred, refa))
        except Exception:  # noqa: BLE001  (recorded by the monitor)
            pass
        ctx.nontrivial("manypairs", n, i)
        return
    elif fam == "neartie":
        pred, refa = gen.near_tie_pair(ctx.seed, i)
        ctx.count("f:family.near_tie_large_instances")
        return run_neartie(ctx, pred, refa)
    else:
        pred, refa = compete_pair(ctx.seed, i)
    if not pred.any() or not refa.any():
        ctx.count("skipped_empty_side")  # the pipeline never calls the matcher with an empty side
        return
    run_pair(ctx, pred, refa, fam)
