"""C01 -- reported panoptic results equal the published definitions, end to end."""

from __future__ import annotations

import numpy as np

from vf import gen, monitors, pan, pipeline, ref

ID = "C01"
LEVEL = "exploration"
RULE = (
    "cases = (prediction, reference, configuration); tiny spaces enumerated completely (all pairs of 1-D maps over "
    "{0,1,2}, 2x2 instance maps, 2x3 and 2x2x2 binary semantic masks), each under the three input types, matching "
    "metric IoU/Dice/ASSD, every threshold equivalence class of that input (incl. thresholds exactly equal to a score) "
    "and rotating decision metric with all decision-threshold classes; plus seeded generated families. A case is "
    "non-trivial when both sides have at least one instance and at least one candidate pair overlaps (matched input: a "
    "common label); distinct = distinct hash of (arrays, dtype, configuration)."
    ' Further families: nearly tied competing candidates on instances of 300..10000 voxels; sparse volumes beyond 2^18 / 2^20 / 2^22 voxels with instances in the first and last voxels; label values whose products / pair codes sit at 2^8, 2^16 and 2^32 (both directions); evaluations through the real process pool.'
)
ASSUMPTIONS = [
    "reference model vf/ref.py (BFS components, exact Fractions, brute-force ASSD) is the documented definition",
    "multiprocessing.Pool replaced by an order-preserving serial starmap (validated by C15; a sample here runs the real pool)",
    "ties / guard-band cases are judged by best-first consistency of the library's own assignment, not by equality",
]
MINIMUM = {"evaluations": 2000, "unique_matching": 500, "f:decision.IOU": 100, "f:decision.DSC": 100, "f:decision.ASSD": 100, "f:decision_rejected_an_instance": 100}
BUDGET_S = {"quick": 1200, "thorough": 900}

TINY = {
    # name: (shape, alphabet, input types, quick stride)
    "t1d3": ((3,), 3, ["UNMATCHED_INSTANCE", "MATCHED_INSTANCE", "SEMANTIC"], 1),
    "t1d4": ((4,), 3, ["UNMATCHED_INSTANCE", "MATCHED_INSTANCE", "SEMANTIC"], 3),
    "t1d5": ((5,), 3, ["UNMATCHED_INSTANCE", "MATCHED_INSTANCE", "SEMANTIC"], 0),
    "t2x2": ((2, 2), 3, ["UNMATCHED_INSTANCE", "MATCHED_INSTANCE", "SEMANTIC"], 3),
    "t2x3b": ((2, 3), 2, ["SEMANTIC"], 2),
    "t2x2x2b": ((2, 2, 2), 2, ["SEMANTIC"], 31),
}
EXHAUSTIVE = {"quick": False, "thorough": True}


def cases(tier, seed):
    for name, (shape, alpha, its, stride) in TINY.items():
        n = gen.tiny_count(shape, alpha)
        if tier == "thorough":
            step = 1
        else:
            if stride == 0:
                continue
            step = stride
        # quick: a seed-dependent residue class so that different seeds cover different pairs
        start = seed % step if step > 1 else 0
        for i in range(start, n, step):
            yield {"fam": name, "i": i}
    nrand = 1500 if tier == "quick" else 40000
    for i in range(nrand):
        yield {"fam": "rand", "i": i}
    for i in range(16 if tier == "quick" else 96):
        yield {"fam": "realpool", "i": i}
    for i in range(32 if tier == "quick" else 320):
        yield {"fam": "neartie", "i": i}
    for i in range(24 if tier == "quick" else 240):
        yield {"fam": "bigvol", "i": i}
    for i in range(180 if tier == "quick" else 1800):
        yield {"fam": "paircode", "i": i}


def setup(ctx):
    monitors.install(ctx, {"capture"})


def thresholds_for(pred, refa, it, backend, metric):
    pi, ri = ref.input_instances(pred, refa, it, backend)
    table = ref.score_table(metric, ri, pi, np.asarray(refa).ndim)
    dec = ref.METRIC_DECREASING[metric]
    return gen.threshold_classes(table.values(), dec, exact=metric in ("IOU", "DSC"), lo=0.0, hi=None if dec else 1.0)


def decision_cfgs(rot, pred, refa, it, backend, info_exp):
    """rotating decision metric; all decision-threshold classes of the matched instances"""
    dm = [None, "IOU", "DSC", "ASSD"][rot % 4]
    if dm is None or info_exp is None:
        return [(None, None)]
    vals = info_exp["lists"].get(dm, [])
    dec = ref.METRIC_DECREASING[dm]
    ths = gen.threshold_classes(vals, dec, exact=dm != "ASSD", lo=0.0, hi=None if dec else 1.0)
    return [(dm, t) for t in ths]


def run_pair(ctx, pred, refa, its, rot, tier, fam):
    key = gen.arr_key(pred, refa)
    for it in its:
        if it == "SEMANTIC":
            backends = [None, "cc3d", "scipy"]
        else:
            backends = [None]
            if pred.dtype.kind != "u":
                continue
        for backend in backends:
            if it == "MATCHED_INSTANCE":
                mconfs = [None]
            else:
                metrics = ["IOU", "DSC", "ASSD"] if tier == "thorough" else [["IOU", "DSC", "ASSD"][rot % 3]]
                mconfs = []
                for mm in metrics:
                    for t in thresholds_for(pred, refa, it, backend, mm):
                        mconfs.append({"kind": "naive", "metric": mm, "thr": t, "m2o": False})
            for mi, mc in enumerate(mconfs):
                cfg = {"input": it, "backend": backend, "matcher": mc}
                r, info = pipeline.check_evaluate(ctx, ID, pred, refa, cfg)
                if info.get("n_pred") and info.get("n_ref") and (info.get("candidates") or it == "MATCHED_INSTANCE" and info.get("matched")):
                    ctx.nontrivial(key, cfg)
                ctx.count("f:input." + it)
                ctx.count("f:ndim.%d" % pred.ndim)
                if mc:
                    ctx.count("f:metric." + mc["metric"])
                # decision metric on a rotating schedule, only where something is matched
                if info.get("exp") and info["exp"]["tp"] > 0 and (mi + rot) % 2 == 0:
                    for dm, dt in decision_cfgs((rot + mi) // 2, pred, refa, it, backend, info["exp"]):
                        if dm is None:
                            continue
                        cfg2 = dict(cfg, dm=dm, dt=dt)
                        r2, info2 = pipeline.check_evaluate(ctx, ID, pred, refa, cfg2)
                        ctx.count("f:decision." + dm)
                        if info2.get("exp") and info2["exp"]["tp"] < info["exp"]["tp"]:
                            ctx.count("f:decision_rejected_an_instance")
                        ctx.nontrivial(key, cfg2)
    ctx.sample({"family": fam, "pred": pred, "ref": refa}) if pred.any() and refa.any() else None


def run(case, ctx):
    fam, i = case["fam"], case["i"]
    if fam in TINY:
        shape, alpha, its, _ = TINY[fam]
        pred, refa = gen.tiny_pair(shape, alpha, i)
        run_pair(ctx, pred, refa, its, i, ctx.tier, fam)
        return
    if fam == "rand":
        r = gen.rng(ctx.seed, "c01", i)
        dtype = [np.uint8, np.uint16, np.uint32, np.uint64][i % 4]
        pred, refa, f = gen.random_pair(ctx.seed, i, dtype=dtype)
        ctx.count("f:family." + f)
        kind = i % 3
        if kind == 0:
            its = ["UNMATCHED_INSTANCE"]
        elif kind == 1:
            pred = gen.make_matched(pred, refa, r)
            its = ["MATCHED_INSTANCE"]
        else:
            pred, refa = gen.to_semantic(pred, r), gen.to_semantic(refa, r)
            if i % 2:
                pred, refa = pred.astype(np.int32), refa.astype(np.int32)
            its = ["SEMANTIC"]
        run_pair(ctx, pred, refa, its, i, "quick", f)
        return
    if fam == "neartie":
        pred, refa = gen.near_tie_pair(ctx.seed, i)
        ctx.count("f:family.near_tie_large_instances")
        for it in ("UNMATCHED_INSTANCE", "SEMANTIC"):
            p2, r2 = (pred, refa) if it == "UNMATCHED_INSTANCE" else (pred.astype(np.int64), refa.astype(np.int64))
            cfg = {"input": it, "backend": "cc3d" if it == "SEMANTIC" else None, "matcher": {"kind": "naive", "metric": ["IOU", "DSC"][i % 2], "thr": [0.3, 0.1][(i // 2) % 2], "m2o": False},
                   "metrics": ["DSC", "IOU", "RVD"]}
            pipeline.check_evaluate(ctx, ID, p2, r2, cfg)
            ctx.nontrivial(gen.arr_key(p2, r2), cfg)
        return
    if fam == "paircode":
        # label values whose products sit at 2^8 / 2^16 / 2^32 (unmatched instances with database-style labels)
        pred, refa = gen.paircode_boundary_pair(ctx.seed, i)
        ctx.count("f:family.paircode_boundary")
        cfg = {"input": "UNMATCHED_INSTANCE", "matcher": {"kind": ["naive", "merge"][(i // 7) % 2], "metric": ["IOU", "DSC"][i % 2], "thr": [0.5, 0.3][(i // 2) % 2], "m2o": False},
               "metrics": ["DSC", "IOU", "RVD"], "global": ["DSC"]}
        for p2, r2 in ((pred, refa), (refa, pred)):
            pipeline.check_evaluate(ctx, ID, p2, r2, cfg)
            ctx.nontrivial(gen.arr_key(p2, r2), cfg)
        return
    if fam == "bigvol":
        # sparse volumes beyond 2^18 / 2^20 / 2^22 voxels with instances at both ends (block-wise and per-worker code)
        pred, refa = gen.big_volume_pair(ctx.seed, i, ctx.tier)
        r = gen.rng(ctx.seed, "c01big", i)
        ctx.count("f:family.big_sparse_volume")
        it = ["UNMATCHED_INSTANCE", "SEMANTIC", "MATCHED_INSTANCE"][i % 3]
        if it == "SEMANTIC":
            pred, refa = gen.to_semantic(pred, r), gen.to_semantic(refa, r)
        elif it == "MATCHED_INSTANCE":
            pred = gen.make_matched(pred, refa, r)
        cfg = {"input": it, "backend": [None, "cc3d", "scipy"][(i // 3) % 3] if it == "SEMANTIC" else None,
               "matcher": None if it == "MATCHED_INSTANCE" else {"kind": "naive", "metric": ["IOU", "DSC"][i % 2], "thr": [0.3, 0.5][(i // 2) % 2], "m2o": bool(i % 5 == 4)},
               "metrics": ["DSC", "IOU", "RVD"] + (["ASSD"] if pred.size < 2**21 else []), "global": ["DSC", "IOU"]}
        pipeline.check_evaluate(ctx, ID, pred, refa, cfg, use_real_pool=(i % 8 == 7))
        ctx.nontrivial(gen.arr_key(pred, refa), cfg)
        return
    if fam == "realpool":
        pred, refa, f = gen.random_pair(ctx.seed, 100000 + i, dtype=np.uint8, max_inst=3)
        cfg = {"input": "UNMATCHED_INSTANCE", "matcher": {"kind": "naive", "metric": ["IOU", "DSC", "ASSD"][i % 3], "thr": 0.3 if i % 3 < 2 else 2.0}}
        pipeline.check_evaluate(ctx, ID, pred, refa, cfg, use_real_pool=True)
        ctx.count("real_pool_evaluations")
