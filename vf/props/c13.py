"""C13 -- global binary metrics depend only on the two foregrounds."""

from __future__ import annotations

import itertools
from fractions import Fraction

import numpy as np

from vf import gen, monitors, pan, ref

ID = "C13"
LEVEL = "exploration"
TECHNIQUE = "runtime monitoring: result monitor on global_bin_* of the real evaluate() against the reference metric on the binarised arrays, a handler table for empty sides, and re-partition metamorphic runs"
RULE = (
    "cases = (label-map pair, subset of global metrics, handler, input type): all 31 non-empty subsets of {DSC, IOU, ASSD, RVD, "
    "clDSC} rotate over generated pairs; handlers give the four scenarios pairwise different results per metric (120 "
    "permutations, rotating); the four emptiness combinations are driven through each input type; every non-empty case is "
    "re-evaluated with the foreground re-partitioned (all instances merged, every voxel its own instance, random relabelling). "
    "Non-trivial = both foregrounds non-empty and different, or an empty side; distinct = hash of (arrays, subset, handler, input type)."
    ' Further families: a long-lived evaluator and default-handler evaluators re-probed every 20 cases (with a 1-D sample and single-metric handlers constructed in between); foregrounds 30000..140000 voxels apart; evaluators with 1-3 class groups (plain and merge, also with label values that the dtype of the arrays cannot hold), every group judged on the maps restricted to its labels.'
)
ASSUMPTIONS = ["clDice: scikit-image skeleton trusted; judged only when both skeletons are non-empty", "ASSD compared with relative 1e-9"]
MINIMUM = {"C13.values_judged": 3000, "C13.empty_side_judged": 300, "C13.repartition_judged": 500}
BUDGET_S = {"quick": 1200, "thorough": 900}

GM = ["DSC", "IOU", "ASSD", "RVD", "clDSC"]
SUBSETS = [list(c) for k in range(1, 6) for c in itertools.combinations(GM, k)]
PERMS = list(itertools.permutations(["INF", "NAN", "ZERO", "ONE", "NONE"], 4))


def cases(tier, seed):
    for i in range(4000 if tier == "quick" else 60000):
        yield {"fam": "rand", "i": i}
    for i in range(900 if tier == "quick" else 9000):
        yield {"fam": "empty", "i": i}
    for i in range(12 if tier == "quick" else 120):
        yield {"fam": "long", "i": i}
    for i in range(240 if tier == "quick" else 6000):
        yield {"fam": "groups", "i": i}


def setup(ctx):
    monitors.install(ctx, set())
    ctx._persist = None


EMPTY_PROBES = None


def empty_probes():
    global EMPTY_PROBES
    if EMPTY_PROBES is None:
        z = np.zeros((4, 6), np.uint8)
        a = z.copy()
        a[1:3, 1:4] = 1
        EMPTY_PROBES = [("empty_pred", z.copy(), a.copy()), ("empty_ref", a.copy(), z.copy()), ("both_empty", z.copy(), z.copy())]
    return EMPTY_PROBES


def probe_globals(ev, cfg):
    out = {}
    for n, p, q in empty_probes():
        with np.errstate(all="ignore"):
            o = pan.evaluate(ev, p.copy(), q.copy())
        r = pan.read_result(o[next(iter(o))][0], cfg["metrics"])
        out[n] = {k: v for k, v in r.items() if k.startswith("global_bin")}
    return out


def persistence_check(ctx, final=False):
    """a long-lived evaluator with its own handler, and evaluators on the library's default handler, must keep
    reporting the same (configured) empty-side values while other handlers come and go in the process"""
    gm = ["DSC", "IOU", "ASSD", "RVD", "clDSC"]
    base = {"input": "MATCHED_INSTANCE", "matcher": None, "metrics": ["DSC", "IOU"], "global": gm}
    if ctx._persist is None:
        h = {m: PERMS[(11 + 17 * k) % len(PERMS)] for k, m in enumerate(GM)}
        cfg = dict(base, handler=h)
        ev = pan.make_evaluator(cfg)
        ctx._persist = (ev, cfg, probe_globals(ev, cfg), h)
        return
    ev, cfg, first, h = ctx._persist
    try:  # an input of a dimensionality for which one of the requested metrics is not defined (may raise)
        one_d = np.array([0, 1, 1, 0, 2, 2, 0], dtype=np.uint8)
        pan.evaluate(ev, one_d, one_d.copy())
    except Exception:  # noqa: BLE001
        pass
    try:  # somebody else in the process configures a handler for a single metric only
        pan.make_handler({["DSC", "ASSD", "RVD"][ctx.counters.get("C13.persistent_evaluator_rechecks", 0) % 3]: ("ONE", "ONE", "ONE", "ONE")})
    except Exception:  # noqa: BLE001
        pass
    now = probe_globals(ev, cfg)
    ctx.count("C13.persistent_evaluator_rechecks")
    if harness_json(now) != harness_json(first):
        ctx.viol("empty_side_value_of_long_lived_evaluator_changed", {"first": first, "now": now, "handler": h}, features={"kind": "persistent_handler"})
    # a fresh evaluator on the default handler: documented default values
    dcfg = dict(base, handler=None)
    d = probe_globals(pan.make_evaluator(dcfg), dcfg)
    for n, sc in (("empty_pred", 1), ("empty_ref", 2), ("both_empty", 0)):
        for m in gm:
            want = ref.EDGE_VALUE[ref.DEFAULT_HANDLER[m][sc]]
            got = d[n]["global_bin_" + m.lower()]
            ctx.count("C13.empty_side_judged")
            if not pan.same(got, want):
                ctx.viol("empty_side_value_not_handler_value", {"handler": "library default", "metric": m, "scenario": n, "got": got, "expected": want},
                         features={"input": "MATCHED_INSTANCE", "metric": m, "scenario": n, "default_handler": True})
                return


def harness_json(x):
    import json
    from vf import harness

    return json.dumps(harness.jsonable(x), sort_keys=True)


def teardown(ctx):
    if ctx._persist is not None:
        persistence_check(ctx, final=True)


def expected_value(metric, pred, refa):
    """metric on the two foregrounds; (value, judged?)"""
    P, R = frozenset(ref.vox(pred)), frozenset(ref.vox(refa))
    ndim = refa.ndim
    if metric in ("DSC", "IOU", "RVD"):
        return ref.f(ref.score_exact(metric, R, P)), True
    if metric == "ASSD":
        return ref.assd(R, P, ndim), True
    if ndim not in (2, 3):
        return None, False
    from skimage.morphology import skeletonize, skeletonize_3d

    sk = skeletonize if ndim == 2 else skeletonize_3d
    pm, rm = np.asarray(pred) != 0, np.asarray(refa) != 0
    sr, sp = sk(rm) != 0, sk(pm) != 0
    if sr.sum() == 0 or sp.sum() == 0:
        return None, False
    a = Fraction(int((pm & sr).sum()), int(sr.sum()))
    b = Fraction(int((rm & sp).sum()), int(sp.sum()))
    if a + b == 0:
        return None, False
    return ref.f(2 * a * b / (a + b)), True


def handler_for(j):
    return {m: PERMS[(j * 7 + 13 * k) % len(PERMS)] for k, m in enumerate(GM)}


def evaluate(ctx, pred, refa, cfg):
    ctx.count("evaluations")
    with np.errstate(all="ignore"):
        out = pan.evaluate(pan.make_evaluator(cfg), pred, refa)
    return pan.read_result(out[next(iter(out))][0], cfg["metrics"])


def judge(ctx, r, pred, refa, gms, h, det, feats):
    pe, re_ = not np.asarray(pred).any(), not np.asarray(refa).any()
    for m in GM:
        key = "global_bin_" + m.lower()
        got = r[key]
        if m not in gms:
            continue
        if m == "clDSC" and refa.ndim not in (2, 3):
            continue
        if pe or re_:
            sc = ref.scenario(0 if pe else 1, 0 if re_ else 1)
            want = ref.EDGE_VALUE[h[m][sc]]
            ctx.count("C13.empty_side_judged")
            if not pan.same(got, want):
                ctx.viol("empty_side_value_not_handler_value", dict(det, metric=m, got=got, expected=want, scenario=["no_instances", "empty_pred", "empty_ref"][sc]),
                         features=dict(feats, metric=m, scenario=["no_instances", "empty_pred", "empty_ref"][sc]))
                return False
            continue
        want, ok = expected_value(m, pred, refa)
        if not ok:
            ctx.count("C13.skipped_undefined")
            continue
        ctx.count("C13.values_judged")
        tol = dict(rel=1e-9, abs_=1e-9) if m in ("ASSD", "clDSC") else dict(abs_=1e-12)
        if isinstance(got, str) or got is None or not pan.same(got, want, **tol):
            ctx.viol("value_differs_from_metric_on_binarised_arrays", dict(det, metric=m, got=got, expected=want), features=dict(feats, metric=m))
            return False
    return True


def repartitions(pred, refa, r, it):
    """same foregrounds, different instance partitions (valid for the input type)"""
    out = []
    dt = np.uint16
    p1, r1 = (pred != 0).astype(dt), (refa != 0).astype(dt)
    out.append(("all_merged", p1, r1))
    if pred.size < 60000:
        pv = np.zeros(pred.shape, dtype=dt)
        pv[pred != 0] = np.arange(1, int((pred != 0).sum()) + 1, dtype=dt)
        rv = np.zeros(refa.shape, dtype=dt)
        rv[refa != 0] = r.permutation(np.arange(1, int((refa != 0).sum()) + 1, dtype=dt))
        if it != "SEMANTIC":
            out.append(("every_voxel_own_instance", pv, rv))
    perm = r.permutation(np.arange(1, 300, dtype=dt))
    lut = np.concatenate([[0], perm]).astype(dt)
    if int(pred.max()) < 300 and int(refa.max()) < 300:
        out.append(("random_relabelling", lut[pred.astype(np.int64)], lut[refa.astype(np.int64)]))
    return out


GROUP_SETS = [
    {"a": ([1], "plain"), "b": ([2, 3], "plain")},
    {"a": ([1, 2], "merge"), "b": ([3], "plain"), "c": ([4], "plain")},
    # a study-wide definition that lists label values the arrays of this data set cannot hold (uint8 arrays, label 257 / 258 / 65537)
    {"a": ([1], "plain"), "lesion": ([2, 257], "plain")},
    {"organ": ([1, 258], "merge"), "rest": ([2, 3, 4], "plain")},
    {"a": ([3, 65537], "plain"), "b": ([1, 2], "merge")},
    {"all": ([1, 2, 3, 4], "merge")},
]


def groups_case(ctx, i):
    """every group's global_bin_<m> is metric m on the two maps restricted to the group's labels and binarised"""
    r = gen.rng(ctx.seed, "c13g", i)
    gs = GROUP_SETS[i % len(GROUP_SETS)]
    it = ["UNMATCHED_INSTANCE", "SEMANTIC", "MATCHED_INSTANCE"][(i // len(GROUP_SETS)) % 3]
    pred, refa, f = gen.random_pair(ctx.seed, 9500 + i, dtype=np.uint8, max_inst=4, family=["rects", "blobs", "shift", "split", "noise"][i % 5])
    pred, refa = np.minimum(pred, 4), np.minimum(refa, 4)
    if i % 7 == 3:
        pred = pred.astype(np.uint16)
        refa = refa.astype(np.uint16)
    if it == "MATCHED_INSTANCE":
        pred = gen.make_matched(pred, refa, r).astype(refa.dtype)
        pred = np.where(pred > 4, 0, pred).astype(refa.dtype)
    defined = sorted({x for l, _ in gs.values() for x in l})
    pred = np.where(np.isin(pred, defined), pred, 0).astype(refa.dtype)  # the library refuses labels that no group defines (C12)
    refa = np.where(np.isin(refa, defined), refa, 0).astype(refa.dtype)
    gms = [m for m in SUBSETS[i % len(SUBSETS)] if m != "clDSC" or refa.ndim in (2, 3)] or ["DSC"]
    h = handler_for(int(r.integers(0, 10000)))
    cfg = {"input": it, "backend": [None, "cc3d", "scipy"][i % 3], "metrics": ["DSC", "IOU"], "global": gms, "handler": {m: h[m] for m in GM}, "std": "NAN",
           "matcher": None if it == "MATCHED_INSTANCE" else {"kind": "naive", "metric": "IOU", "thr": 0.5},
           "groups": {n: {"labels": list(l), "kind": k} for n, (l, k) in gs.items()}}
    ctx.count("evaluations")
    try:
        with np.errstate(all="ignore"):
            out = pan.evaluate(pan.make_evaluator(cfg), pred.copy(), refa.copy())
    except Exception as e:  # noqa: BLE001
        ctx.viol("evaluate_raised", {"pred": pred, "ref": refa, "cfg": cfg, "exc": repr(e)[:300]}, features={"input": it, "exc": type(e).__name__, "groups": True})
        return
    for n, (labels, kind) in gs.items():
        res = pan.read_result(out[n][0], cfg["metrics"])
        pg = np.where(np.isin(pred, labels), pred, 0)
        rg = np.where(np.isin(refa, labels), refa, 0)
        ctx.count("C13.group_values_judged")
        if not judge(ctx, res, pg, rg, gms, h, {"pred": pred, "ref": refa, "cfg": cfg, "group": n}, {"input": it, "groups": True, "group_kind": kind}):
            return
    ctx.nontrivial("groups", gen.arr_key(pred, refa), i)


def run(case, ctx):
    fam, i = case["fam"], case["i"]
    if ctx._persist is None or ctx.cases_run % 20 == 0:
        persistence_check(ctx)
    if fam == "groups":
        return groups_case(ctx, i)
    r = gen.rng(ctx.seed, "c13", fam, i)
    it = ["UNMATCHED_INSTANCE", "SEMANTIC", "MATCHED_INSTANCE"][i % 3]
    gms = SUBSETS[i % len(SUBSETS)]
    j = int(r.integers(0, 10000))
    h = handler_for(j)
    if fam == "long":
        # foregrounds tens of thousands of voxels apart along one axis (index arithmetic in narrow integer types)
        n = int([40000, 33000, 70000, 66000, 140000, 32800][i % 6])
        shape = [(n,), (2, n), (n, 3)][(i // 2) % 3]
        refa = np.zeros(shape, dtype=np.uint8)
        pred = np.zeros(shape, dtype=np.uint8)
        ax = int(np.argmax(shape))
        a = [slice(None)] * len(shape)
        a[ax] = slice(2, 6 + i % 3)
        refa[tuple(a)] = 1
        a[ax] = slice(n - 9 - i % 5, n - 1)
        pred[tuple(a)] = 1
        if i % 4 == 3:
            a[ax] = slice(n // 2, n // 2 + 3)
            refa[tuple(a)] = 2 if it != "SEMANTIC" else 1
        gms = ["ASSD", "DSC"]
        ctx.count("f:family.foregrounds_far_apart")
    elif fam == "rand":
        pred, refa, f = gen.random_pair(ctx.seed, 9000 + i, dtype=np.uint8)
        ctx.count("f:family." + f)
        if it == "SEMANTIC":
            pred, refa = gen.to_semantic(pred, r), gen.to_semantic(refa, r)
    else:
        pred, refa, f = gen.random_pair(ctx.seed, 9000 + i, dtype=np.uint8, family="rects")
        k = (i // 3) % 3
        if k == 0:
            pred[:] = 0
        elif k == 1:
            refa[:] = 0
        else:
            pred[:] = 0
            refa[:] = 0
    gms_eff = [m for m in gms if m != "clDSC" or refa.ndim in (2, 3)]
    if not gms_eff:
        gms_eff = ["DSC"]
    cfg = {
        "input": it, "backend": [None, "cc3d", "scipy"][i % 3], "metrics": ["DSC", "IOU"], "global": gms_eff, "handler": {m: h[m] for m in GM}, "std": "NAN",
        "matcher": None if it == "MATCHED_INSTANCE" else {"kind": ["naive", "merge"][i % 2], "metric": "IOU", "thr": [0.5, 0.1, 0.9][i % 3]},
    }
    det = {"pred": pred, "ref": refa, "cfg": cfg}
    feats = {"input": it}
    try:
        res = evaluate(ctx, pred, refa, cfg)
    except Exception as e:  # noqa: BLE001
        ctx.viol("evaluate_raised", dict(det, exc=repr(e)[:300]), features=dict(feats, exc=type(e).__name__))
        return
    ctx.count("f:subset_size.%d" % len(gms_eff))
    if not judge(ctx, res, pred, refa, gms_eff, h, det, feats):
        return
    if (pred.any() and refa.any() and not np.array_equal(pred != 0, refa != 0)) or fam == "empty":
        ctx.nontrivial(gen.arr_key(pred, refa), gms_eff, j, it)
    if i % 100 == 0:
        ctx.sample({"input": it, "global_metrics": gms_eff, "pred": pred if pred.size < 50 else "(%s)" % (pred.shape,), "values": {k: v for k, v in res.items() if k.startswith("global")}})
    # re-partition: the values must not change
    if fam == "rand" and pred.any() and refa.any():
        for name, p2, r2 in repartitions(pred, refa, r, it):
            if it == "SEMANTIC":
                p2, r2 = p2.astype(np.int32), r2.astype(np.int32)
            try:
                res2 = evaluate(ctx, p2, r2, cfg)
            except Exception as e:  # noqa: BLE001
                ctx.viol("evaluate_raised", {"pred": p2, "ref": r2, "cfg": cfg, "exc": repr(e)[:300]}, features=dict(feats, exc=type(e).__name__, repartition=name))
                continue
            ctx.count("C13.repartition_judged")
            for m in gms_eff:
                key = "global_bin_" + m.lower()
                tol = dict(rel=1e-9, abs_=1e-9) if m in ("ASSD", "clDSC") else dict(abs_=1e-12)
                a, b = res[key], res2[key]
                if isinstance(a, str) or isinstance(b, str) or a is None or b is None:
                    ok = a == b
                else:
                    ok = pan.same(a, b, **tol)
                if not ok:
                    ctx.viol("value_depends_on_instance_partition", {"pred": pred, "ref": refa, "repartition": name, "metric": m, "base": a, "repartitioned": b, "cfg": cfg},
                             features=dict(feats, metric=m, repartition=name))
                    break
