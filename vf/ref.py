"""Executable reference model for the panoptica properties.

Written from metrics.md, the README and the property statements; deliberately naive.
Imports numpy and the standard library only -- never panoptica (setup.sh greps this).

Conventions
-----------
* a *voxel map* is ``dict[coord tuple -> int label]`` of the non-zero voxels of an array
* an *instance* is a ``frozenset`` of coordinate tuples
* overlap scores are exact ``fractions.Fraction`` converted with one correctly rounded
  division, so an implementation dividing the same two integers gives the same float
"""

from __future__ import annotations

import itertools
import math
from fractions import Fraction

import numpy as np

TOL = 1e-9  # guard band / tie tolerance (DESIGN.md section 3)


# --------------------------------------------------------------------------- voxels
def vox(arr) -> dict:
    a = np.asarray(arr)
    idx = np.argwhere(a != 0)
    if len(idx) == 0:
        return {}
    vals = a[tuple(idx.T)].tolist()
    return {tuple(c): int(v) for c, v in zip(idx.tolist(), vals)}


def instances_of(voxmap: dict) -> dict:
    """label -> frozenset(coords)"""
    out: dict = {}
    for c, v in voxmap.items():
        out.setdefault(v, set()).add(c)
    return {k: frozenset(s) for k, s in out.items()}


def _face_offsets(ndim):
    offs = []
    for ax in range(ndim):
        for d in (-1, 1):
            o = [0] * ndim
            o[ax] = d
            offs.append(tuple(o))
    return offs


def _full_offsets(ndim):
    return [o for o in itertools.product((-1, 0, 1), repeat=ndim) if any(o)]


def components(voxmap: dict, mode: str, ndim: int) -> list:
    """Connected components of a voxel map.

    mode "face": face neighbours (4/6-connectivity) on the non-zero mask, labels ignored
                 (documented behaviour of the scipy backend)
    mode "full": full 3^n-1 neighbourhood (8/26-connectivity), only equal labels join
                 (documented behaviour of the cc3d backend)
    Returned in raster order of their smallest coordinate.
    """
    offs = _face_offsets(ndim) if mode == "face" else _full_offsets(ndim)
    label_aware = mode == "full"
    seen = set()
    comps = []
    for start in sorted(voxmap):
        if start in seen:
            continue
        lab = voxmap[start]
        seen.add(start)
        stack = [start]
        comp = [start]
        while stack:
            c = stack.pop()
            for o in offs:
                n = tuple(x + y for x, y in zip(c, o))
                if n in seen or n not in voxmap:
                    continue
                if label_aware and voxmap[n] != lab:
                    continue
                seen.add(n)
                stack.append(n)
                comp.append(n)
        comps.append(frozenset(comp))
    return comps


def backend_mode(backend: str | None, ndim: int) -> str:
    """documented connectivity of the backend actually to be used"""
    if backend is None:
        backend = "cc3d" if ndim >= 3 else "scipy"
    return {"cc3d": "full", "scipy": "face"}[backend]


# --------------------------------------------------------------------------- metrics
def iou(X: frozenset, Y: frozenset):
    u = len(X | Y)
    return None if u == 0 else Fraction(len(X & Y), u)


def dice(X: frozenset, Y: frozenset):
    d = len(X) + len(Y)
    return None if d == 0 else Fraction(2 * len(X & Y), d)


def rvd(P: frozenset, R: frozenset):
    """(|pred| - |ref|) / |ref|"""
    return None if len(R) == 0 else Fraction(len(P) - len(R), len(R))


def border(X: frozenset, ndim: int) -> list:
    offs = _face_offsets(ndim)
    out = []
    for c in X:
        for o in offs:
            if tuple(a + b for a, b in zip(c, o)) not in X:
                out.append(c)
                break
    return out


def _directed(A: list, B: list) -> float:
    """mean over a in A of min over b in B of the Euclidean distance"""
    a = np.asarray(A, dtype=np.int64)
    b = np.asarray(B, dtype=np.int64)
    mins = []
    # chunk to bound memory; integer squared distances, one sqrt per voxel
    step = max(1, 2_000_000 // max(1, len(b)))
    for i in range(0, len(a), step):
        d = a[i : i + step, None, :] - b[None, :, :]
        sq = (d * d).sum(axis=2).min(axis=1)
        mins.extend(math.sqrt(int(s)) for s in sq.tolist())
    return math.fsum(mins) / len(mins)


def assd(X: frozenset, Y: frozenset, ndim: int):
    if not X or not Y:
        return None
    bx, by = border(X, ndim), border(Y, ndim)
    return (_directed(bx, by) + _directed(by, bx)) / 2.0


def assd_pure(X: frozenset, Y: frozenset, ndim: int):
    """the same, in plain python loops (used to cross-check the numpy brute force)"""
    if not X or not Y:
        return None
    bx, by = border(X, ndim), border(Y, ndim)

    def d(A, B):
        return math.fsum(
            math.sqrt(min(sum((p - q) ** 2 for p, q in zip(a, b)) for b in B)) for a in A
        ) / len(A)

    return (d(bx, by) + d(by, bx)) / 2.0


def f(x):
    """Fraction/None -> float/None with one correctly rounded division"""
    if x is None:
        return None
    if isinstance(x, Fraction):
        return x.numerator / x.denominator
    return float(x)


METRIC_DECREASING = {"IOU": False, "DSC": False, "ASSD": True, "RVD": True, "clDSC": False}


def score(metric: str, R: frozenset, P: frozenset, ndim: int):
    """score of prediction voxel set P against reference voxel set R, as float (or None)"""
    if metric == "IOU":
        return f(iou(R, P))
    if metric == "DSC":
        return f(dice(R, P))
    if metric == "RVD":
        return f(rvd(P, R))
    if metric == "ASSD":
        return assd(R, P, ndim)
    raise KeyError(metric)


def score_exact(metric: str, R, P):
    if metric == "IOU":
        return iou(R, P)
    if metric == "DSC":
        return dice(R, P)
    if metric == "RVD":
        return rvd(P, R)
    return None


def meets(metric: str, s: float, thr: float) -> bool:
    return s <= thr if METRIC_DECREASING[metric] else s >= thr


def near(s: float, thr: float) -> bool:
    return abs(s - thr) <= TOL * max(1.0, abs(thr))


def better_or_equal(metric: str, a: float, b: float) -> bool:
    """a at least as good as b (ties within TOL count)"""
    if METRIC_DECREASING[metric]:
        return a <= b + TOL * max(1.0, abs(b))
    return a >= b - TOL * max(1.0, abs(b))


def strictly_better(metric: str, a: float, b: float) -> bool:
    if METRIC_DECREASING[metric]:
        return a < b - TOL * max(1.0, abs(b))
    return a > b + TOL * max(1.0, abs(b))


# --------------------------------------------------------------------------- matching
def candidates(ref_inst: dict, pred_inst: dict) -> list:
    """pairs (r, p) of keys with at least one common voxel"""
    owner = {}
    for r, R in ref_inst.items():
        for c in R:
            owner[c] = r
    pairs = set()
    for p, P in pred_inst.items():
        for c in P:
            r = owner.get(c)
            if r is not None:
                pairs.add((r, p))
    return sorted(pairs)


def score_table(metric: str, ref_inst: dict, pred_inst: dict, ndim: int) -> dict:
    return {
        (r, p): score(metric, ref_inst[r], pred_inst[p], ndim)
        for r, p in candidates(ref_inst, pred_inst)
    }


def eligibility(metric: str, table: dict, thr: float, exact_scores: bool) -> dict:
    """pair -> True / False / None (None = inside the guard band, either decision accepted)

    exact_scores: the scores are quotients of exact integers (IoU/Dice) or come from the
    'exact' family, so comparison with the threshold is decided exactly."""
    out = {}
    for k, s in table.items():
        if not exact_scores and near(s, thr):
            out[k] = None
        else:
            out[k] = meets(metric, s, thr)
    return out


def has_conflicting_tie(metric: str, table: dict, elig: dict, many_to_one: bool) -> bool:
    """two candidate pairs that compete (share the prediction, or the reference in
    one-to-one mode), are both possibly eligible and score within TOL of each other"""
    ks = [k for k in table if elig[k] is not False]
    for i, a in enumerate(ks):
        for b in ks[i + 1 :]:
            share = a[1] == b[1] or (not many_to_one and a[0] == b[0])
            if share and abs(table[a] - table[b]) <= TOL * max(1.0, abs(table[a])):
                return True
    return False


def greedy(metric: str, table: dict, elig: dict, many_to_one: bool) -> dict:
    """plain best-first greedy matching; returns pred -> ref. Only meaningful when no
    conflicting tie / guard-band candidate exists."""
    order = sorted(table, key=lambda k: table[k], reverse=not METRIC_DECREASING[metric])
    M: dict = {}
    used_ref = set()
    for r, p in order:
        if not elig[(r, p)]:
            continue
        if p in M:
            continue
        if not many_to_one and r in used_ref:
            continue
        M[p] = r
        used_ref.add(r)
    return M


def greedy_consistency(
    metric: str, table: dict, elig: dict, M: dict, many_to_one: bool
) -> list:
    """Problems that show assignment M (pred -> ref) is NOT the outcome of a best-first
    greedy thresholded matching under any tie-break.  Empty list = consistent."""
    problems = []
    # (1) functional by construction (dict); injective unless many-to-one
    if not many_to_one:
        refs = list(M.values())
        dup = {r for r in refs if refs.count(r) > 1}
        if dup:
            problems.append(("ref_assigned_twice", sorted(dup)))
    # (2) every assigned pair overlaps and meets the threshold
    for p, r in M.items():
        if (r, p) not in table:
            problems.append(("assigned_pair_without_overlap", (r, p)))
        elif elig[(r, p)] is False:
            problems.append(("assigned_pair_misses_threshold", (r, p), table[(r, p)]))
    # (3) every definitely eligible unassigned pair is blocked by an assigned pair that is
    #     at least as good
    assigned_refs = set(M.values())
    for (r, p), ok in elig.items():
        if ok is not True or M.get(p) == r:
            continue
        blockers = []
        if p in M and (M[p], p) in table:
            blockers.append(table[(M[p], p)])
        if not many_to_one and r in assigned_refs:
            blockers.extend(
                table[(r, q)] for q, rr in M.items() if rr == r and (r, q) in table
            )
        if not blockers:
            problems.append(("eligible_pair_left_with_both_unassigned", (r, p), table[(r, p)]))
        elif not any(better_or_equal(metric, b, table[(r, p)]) for b in blockers):
            problems.append(("better_pair_displaced_by_worse", (r, p), table[(r, p)], blockers))
    return problems


# --------------------------------------------------------------------------- evaluation
def mean(xs):
    return math.fsum(xs) / len(xs)


def pstdev(xs):
    m = mean(xs)
    return math.sqrt(math.fsum((x - m) ** 2 for x in xs) / len(xs))


DEFAULT_HANDLER = {
    # metric -> (no_instances, empty_pred, empty_ref, normal)
    "DSC": ("NAN", "ZERO", "ZERO", "ZERO"),
    "clDSC": ("NAN", "ZERO", "ZERO", "ZERO"),
    "IOU": ("NAN", "ZERO", "ZERO", "ZERO"),
    "ASSD": ("NAN", "INF", "INF", "INF"),
    "RVD": ("NAN", "NAN", "NAN", "NAN"),
}
EDGE_VALUE = {"INF": math.inf, "NAN": math.nan, "ZERO": 0.0, "ONE": 1.0, "NONE": None}


def scenario(n_pred: int, n_ref: int) -> int:
    """index into the handler tuple: 0 no instances, 1 empty prediction, 2 empty reference,
    3 instances on both sides"""
    if n_pred == 0 and n_ref == 0:
        return 0
    if n_pred == 0:
        return 1
    if n_ref == 0:
        return 2
    return 3


def evaluate_assignment(
    groups: list,
    n_pred: int,
    n_ref: int,
    ndim: int,
    metrics=("DSC", "IOU", "ASSD", "RVD"),
    decision_metric: str | None = None,
    decision_threshold: float | None = None,
    handler: dict | None = None,
    empty_list_std: str = "NAN",
) -> dict:
    """Definitions applied to an assignment.

    groups: list of (R voxel set, P voxel set) -- one entry per matched reference, P being
    the union of the predictions assigned to it.  Returns the expected result numbers."""
    handler = handler or DEFAULT_HANDLER
    lists = {m: [] for m in metrics}
    guard = False
    for R, P in groups:
        vals = {m: score(m, R, P, ndim) for m in metrics}
        if decision_metric is not None:
            s = vals[decision_metric]
            # IoU/Dice/RVD are quotients of exact integers; an ASSD of exactly 0.0 (coinciding
            # borders) is exact in any implementation
            exact = decision_metric in ("IOU", "DSC", "RVD") or s == 0.0
            if not exact and near(s, decision_threshold):
                guard = True
            if not meets(decision_metric, s, decision_threshold):
                continue
        for m in metrics:
            lists[m].append(vals[m])
    tp = len(next(iter(lists.values()))) if lists else len(groups)
    out = {
        "num_pred_instances": n_pred,
        "num_ref_instances": n_ref,
        "tp": tp,
        "fp": n_pred - tp,
        "fn": n_ref - tp,
        "lists": lists,
        "decision_guard": guard,
    }
    if tp == 0:
        out["rq"] = 0.0 if n_pred + n_ref > 0 else math.nan
    else:
        out["rq"] = tp / (tp + 0.5 * (n_pred - tp) + 0.5 * (n_ref - tp))
    sc = scenario(n_pred, n_ref)
    names = {"IOU": "sq", "DSC": "sq_dsc", "ASSD": "sq_assd", "RVD": "sq_rvd", "clDSC": "sq_cldsc"}
    for m in metrics:
        key = names[m]
        if tp == 0:
            out[key] = EDGE_VALUE[handler[m][sc]]
            out[key + "_std"] = EDGE_VALUE[empty_list_std]
        else:
            out[key] = mean(lists[m])
            out[key + "_std"] = pstdev(lists[m])
    for m, pk in (("IOU", "pq"), ("DSC", "pq_dsc")):
        if m in metrics:
            s = out[names[m]]
            out[pk] = None if s is None else s * out["rq"]
    return out


# --------------------------------------------------------------------------- pipeline
def input_instances(pred, ref, input_type: str, backend: str | None):
    """instances of both sides as the documented procedure defines them.
    returns (pred_inst, ref_inst) dicts key -> frozenset.  For instance input the key is
    the label; for semantic input the component index (1-based, raster order)."""
    pred = np.asarray(pred)
    ref = np.asarray(ref)
    ndim = ref.ndim
    vp, vr = vox(pred), vox(ref)
    if input_type == "SEMANTIC":
        mode = backend_mode(backend, ndim)
        return (
            {i + 1: c for i, c in enumerate(components(vp, mode, ndim))},
            {i + 1: c for i, c in enumerate(components(vr, mode, ndim))},
        )
    return instances_of(vp), instances_of(vr)


def bin_metric(metric: str, pred, ref):
    """global binary metric on the two foregrounds; None when undefined"""
    P = frozenset(vox(pred))
    R = frozenset(vox(ref))
    return score(metric, R, P, np.asarray(ref).ndim)
