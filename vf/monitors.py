"""Monitors: wrappers installed on the real panoptica functions (DESIGN.md 2.1).

A monitor never changes arguments, results or exceptions of the function it observes; it
records violations and counters into the shard's Ctx.  `install()` fails the run as
inconclusive when a name it expects is missing, so a refactor cannot silently detach one.
"""

from __future__ import annotations

import functools
import math
from fractions import Fraction

import numpy as np

from vf import pan, ref

MAX_VOX = 400_000  # size gate for the python-set reference ...
MAX_FG = 60_000  # ... which applies to the foreground: sparse volumes of any size are judged


def too_big(*arrs):
    return any(a.size > MAX_VOX and int(np.count_nonzero(a)) > MAX_FG for a in arrs)


class State:
    ctx = None
    enabled: set = set()
    exact = False  # current case guarantees exactly representable scores (ASSD 'exact' family)
    stack: list = []  # labelmaps captured by the inner matcher monitor
    last_match = None
    backend_override = None  # (backend name or None,) set by a driver that knows what it configured
    installed = False


S = State


def _need(obj, name):
    if not hasattr(obj, name):
        raise SystemExit(f"INCONCLUSIVE reason=monitor target {obj!r}.{name} not found")
    return getattr(obj, name)


def metric_name(m):
    n = getattr(m, "name", None)
    if not isinstance(n, str):
        raise SystemExit("INCONCLUSIVE reason=cannot read metric name")
    return n


def labelmap_dict(lm) -> dict:
    d = _need(lm, "labelmap")
    return {int(k): int(v) for k, v in d.items()}


# ----------------------------------------------------------------------------- C03 / C14: inner matcher
def _wrap_inner_match(cls):
    orig = cls.__dict__["_match_instances"]

    @functools.wraps(orig)
    def wrapper(self, unmatched_instance_pair, *a, **k):
        want03 = "C03" in S.enabled and cls.__name__ == "NaiveThresholdMatching"
        want14 = "C14" in S.enabled and cls.__name__ == "MaximizeMergeMatching"
        capture = "capture" in S.enabled or want03 or want14 or "C04" in S.enabled or "C02" in S.enabled
        if not capture:
            return orig(self, unmatched_instance_pair, *a, **k)
        pred = np.array(unmatched_instance_pair.prediction_arr, copy=True)
        refa = np.array(unmatched_instance_pair.reference_arr, copy=True)
        try:
            lm = orig(self, unmatched_instance_pair, *a, **k)
        except Exception as e:  # noqa: BLE001
            if want03 or want14:
                S.ctx.viol(
                    "matcher_raised",
                    {"exc": repr(e)[:300], "pred": pred, "ref": refa, "matcher": matcher_desc(self)},
                    prop="C03" if want03 else "C14",
                    features={"many_to_one": bool(getattr(self, "_allow_many_to_one", False)), "exc": type(e).__name__},
                )
            raise
        M = labelmap_dict(lm)
        S.last_match = {"M": M, "order": list(M.items()), "matcher": self, "pred": pred, "ref": refa}
        if not too_big(pred, refa):
            if want03:
                check_naive_matching(self, pred, refa, M)
            if want14:
                check_merge_matching(self, pred, refa, list(M.items()))
        else:
            S.ctx.count("skipped_size")
        return lm

    cls._match_instances = wrapper


def matcher_desc(m):
    return {
        "cls": type(m).__name__,
        "metric": metric_name(_need(m, "_matching_metric")),
        "thr": _need(m, "_matching_threshold"),
        "m2o": bool(getattr(m, "_allow_many_to_one", False)),
    }


def asked_for(matcher):
    """(metric name, threshold, many-to-one) as the caller configured them (recorded by pan.make_matcher); for a matcher
    built elsewhere (the repository's own tests) what the object says about itself"""
    c = getattr(matcher, "_vf_cfg", None)
    if c is not None:
        S.ctx.count("monitor.matcher_settings_taken_from_the_call")
        return c["metric"], float(c["thr"]), bool(c["m2o"])
    return metric_name(_need(matcher, "_matching_metric")), float(_need(matcher, "_matching_threshold")), bool(getattr(matcher, "_allow_many_to_one", False))


def check_naive_matching(matcher, pred, refa, M):
    ctx = S.ctx
    metric, thr, m2o = asked_for(matcher)
    ndim = refa.ndim
    pi, ri = ref.instances_of(ref.vox(pred)), ref.instances_of(ref.vox(refa))
    table = ref.score_table(metric, ri, pi, ndim)
    exact = metric in ("IOU", "DSC") or S.exact
    elig = ref.eligibility(metric, table, thr, exact)
    ctx.count("C03.checked")
    ctx.count("C03.candidates", len(table))
    ctx.count("C03.guard_band_pairs", sum(1 for v in elig.values() if v is None))
    if any(s is not None and thr == s for s in table.values()):
        ctx.count("f:C03.exact_threshold_hit")
    if m2o:
        ctx.count("f:C03.many_to_one")
    if len({p for _, p in table}) < len(table):
        ctx.count("f:C03.pred_with_several_refs")
    if len({r for r, _ in table}) < len(table):
        ctx.count("f:C03.ref_with_several_preds")
    unknown = [p for p in M if p not in pi] + [r for r in M.values() if r not in ri]
    if unknown:
        ctx.viol("assignment_names_unknown_label", {"M": M, "unknown": unknown, "pred": pred, "ref": refa}, prop="C03")
        return
    probs = ref.greedy_consistency(metric, table, elig, M, m2o)
    if probs:
        multi = any(sum(1 for (r, p) in table if p == q and elig[(r, p)]) > 1 for q in pi)
        ctx.viol(
            probs[0][0],
            {"problems": probs[:5], "M": M, "table": {str(k): v for k, v in table.items()}, "pred": pred, "ref": refa,
             "matcher": matcher_desc(matcher)},
            prop="C03",
            features={"many_to_one": m2o, "metric": metric, "pred_eligible_for_several_refs": multi},
        )


def check_merge_matching(matcher, pred, refa, order):
    """C14.  The statement describes a process (seed with a prediction that meets the threshold alone, then merge
    only on strict improvement); what is observable is the assignment.  It is accepted iff for every matched
    reference SOME order of its predictions is such a process (the insertion order of the label map is tried
    first; an implementation is free to build its label map in any order)."""
    ctx = S.ctx
    metric, thr, _ = asked_for(matcher)
    ndim = refa.ndim
    pi, ri = ref.instances_of(ref.vox(pred)), ref.instances_of(ref.vox(refa))
    table = ref.score_table(metric, ri, pi, ndim)
    exact = metric in ("IOU", "DSC")
    dec = ref.METRIC_DECREASING[metric]
    ctx.count("C14.checked")
    per_ref: dict = {}
    for p, r in order:
        per_ref.setdefault(r, []).append(p)
    assigned = dict(order)
    feats = {"metric": metric, "decreasing": dec}
    det = {"order": order, "pred": pred, "ref": refa, "matcher": matcher_desc(matcher)}

    def sc(R, U):
        return ref.score_exact(metric, R, frozenset(U)) if exact else ref.score(metric, R, frozenset(U), ndim)

    def eligible(x):
        v = float(x) if exact else x
        if not exact and not S.exact and ref.near(v, thr):
            return True  # guard band: either decision accepted
        return ref.meets(metric, v, thr)

    def improves(new, old):
        if exact or S.exact:
            return new < old if dec else new > old
        if abs(new - old) <= ref.TOL * max(1.0, abs(old)):
            ctx.count("C14.skipped_near_equal_step")
            return True  # guard band
        return ref.strictly_better(metric, new, old)

    for r, ps in per_ref.items():
        if r not in ri or any(p not in pi for p in ps):
            ctx.viol("assignment_names_unknown_label", det, prop="C14", features=feats)
            continue
        R = ri[r]
        if len(ps) > 1:
            ctx.count("f:C14.ref_with_merge")
        ctx.count("C14.merge_steps", len(ps) - 1)

        def valid(seq):
            U = set(pi[seq[0]])
            cur = sc(R, U)
            if not eligible(cur):
                return False
            for p in seq[1:]:
                U |= pi[p]
                nxt = sc(R, U)
                if not improves(nxt, cur):
                    return False
                cur = nxt
            return True

        ok = valid(ps)
        if not ok:
            ctx.count("C14.info.insertion_order_is_not_a_valid_process")  # information only (see docstring)
        if not ok:  # the documented processing order: best single score first
            singles_f = {p: float(sc(R, pi[p])) for p in ps}
            ok = valid(sorted(ps, key=lambda p: singles_f[p], reverse=not dec))
            if ok:
                ctx.count("C14.accepted_in_another_order")
        if not ok and len(ps) > 16 and exact:
            # IoU / Dice of a union of pairwise disjoint fragments is additive: with i = voxels inside the reference,
            # o = voxels outside, adding x to T improves the score iff i_x * (|R| + O_T) > o_x * I_T, i.e. iff x's own
            # ratio i_x / o_x exceeds the current IoU.  The IoU only rises along a valid process, so if any order is
            # valid, the one that adds the remaining fragments by ascending ratio after the same seed is valid too:
            # an exact decision with one pass per eligible seed
            from fractions import Fraction

            io = {p: (len(pi[p] & R), len(pi[p] - R)) for p in ps}

            def ratio(p):
                i_, o_ = io[p]
                return Fraction(i_, o_) if o_ else Fraction(10**18)

            for p0 in ps:
                if not eligible(sc(R, pi[p0])):
                    continue
                I_, O_ = io[p0]
                good = True
                for p in sorted((q for q in ps if q != p0), key=ratio):
                    i_, o_ = io[p]
                    if not i_ * (len(R) + O_) > o_ * I_:
                        good = False
                        break
                    I_, O_ = I_ + i_, O_ + o_
                if good:
                    ok = True
                    ctx.count("C14.accepted_in_another_order")
                    break
            ctx.count("C14.many_fragments_decided_by_ratio_order")
        elif not ok and len(ps) > 16:
            ctx.count("C14.skipped_too_many_fragments")
            continue
        if not ok and len(ps) <= 16:
            # is there any order that is a seed-then-strictly-improving process?  (DFS with memoised dead ends)
            dead = set()

            def dfs(used, U, cur):
                if len(used) == len(ps):
                    return True
                key = frozenset(used)
                if key in dead:
                    return False
                for p in ps:
                    if p in used:
                        continue
                    U2 = U | pi[p]
                    nxt = sc(R, U2)
                    if improves(nxt, cur) and dfs(used | {p}, U2, nxt):
                        return True
                dead.add(key)
                return False

            for p0 in ps:
                s0 = sc(R, pi[p0])
                if eligible(s0) and dfs({p0}, set(pi[p0]), s0):
                    ok = True
                    ctx.count("C14.accepted_in_another_order")
                    break
        U = set()
        for p in ps:
            U |= pi[p]
        final = sc(R, U)
        finalf = float(final) if exact else final
        if not ok:
            singles = {p: float(sc(R, pi[p])) for p in ps}
            kind = "matched_without_single_eligible_prediction" if not any(eligible(sc(R, pi[p])) for p in ps) else "merge_without_strict_improvement"
            ctx.viol(kind, dict(det, ref_label=r, predictions=ps, single_scores=singles, final=finalf), prop="C14", features=feats)
            continue
        # final score: meets threshold, at least as good as every single candidate that was free for r
        if exact or not ref.near(finalf, thr):
            if not ref.meets(metric, finalf, thr):
                ctx.viol("final_score_misses_threshold", dict(det, ref_label=r, final=finalf), prop="C14", features=feats)
        for (rr, q), s_ in table.items():
            if rr != r:
                continue
            if q in assigned and assigned[q] != r:
                continue
            if not ref.better_or_equal(metric, finalf, s_):
                ctx.viol("final_score_worse_than_best_single_candidate", dict(det, ref_label=r, final=finalf, candidate=q, candidate_score=s_), prop="C14", features=feats)
                break
    # references that stay unmatched although a free single prediction is eligible are not
    # excluded by the statement of C14 (it bounds merging, not maximality) -> not judged


# ----------------------------------------------------------------------------- C04: relabelling
def _wrap_outer_match(base):
    orig = base.__dict__["match_instances"]

    @functools.wraps(orig)
    def wrapper(self, unmatched_instance_pair, *a, **k):
        if "C04" not in S.enabled:
            return orig(self, unmatched_instance_pair, *a, **k)
        in_pred = np.array(unmatched_instance_pair.prediction_arr, copy=True)
        in_ref = np.array(unmatched_instance_pair.reference_arr, copy=True)
        S.last_match = None
        out = orig(self, unmatched_instance_pair, *a, **k)
        lm = S.last_match
        if in_pred.size > 40_000_000:
            S.ctx.count("skipped_size")
            return out
        if lm is None:
            # the inner _match_instances call was not observed (e.g. the result came from a cache): take the
            # assignment from the output itself -- a prediction counts as matched iff it carries a reference label
            S.ctx.count("C04.no_labelmap_captured")
            refl = set(int(x) for x in np.unique(in_ref) if x != 0)
            pairs = set(zip(in_pred.ravel().tolist(), np.asarray(out.prediction_arr).ravel().tolist())) if np.asarray(out.prediction_arr).shape == in_pred.shape else set()
            M = {i: o for i, o in pairs if i != 0 and o in refl}
            check_relabelling(self, in_pred, in_ref, M, out)
            return out
        check_relabelling(self, in_pred, in_ref, lm["M"], out)
        return out

    base.match_instances = wrapper


def check_relabelling(matcher, in_pred, in_ref, M, out):
    ctx = S.ctx
    ctx.count("C04.checked")
    out_pred = np.asarray(out.prediction_arr)
    out_ref = np.asarray(out.reference_arr)
    n_unmatched = len(set(int(x) for x in np.unique(in_pred) if x != 0) - set(M))
    max_ref = int(in_ref.max()) if in_ref.size else 0
    info = np.iinfo(in_pred.dtype)
    feats = {
        "dtype": str(in_pred.dtype),
        "fresh_labels_exceed_dtype": bool(max_ref + n_unmatched > info.max),
        "cls": type(matcher).__name__,
    }
    if max_ref + n_unmatched > 255:
        ctx.count("f:C04.fresh_past_255")
    if max_ref + n_unmatched > 65535:
        ctx.count("f:C04.fresh_past_65535")
    det = {"M": M, "in_pred": in_pred, "in_ref": in_ref, "out_pred": out_pred, "out_ref": out_ref, "matcher": matcher_desc(matcher)}
    big = in_pred.size > MAX_VOX  # numpy-only paths for big volumes (labels of instance maps are unsigned)
    if out_ref.shape != in_ref.shape or not (np.array_equal(out_ref.astype(np.uint64), in_ref.astype(np.uint64)) if big and out_ref.dtype.kind == "u" and in_ref.dtype.kind == "u"
                                             else np.array_equal(out_ref.astype(object), in_ref.astype(object))):
        ctx.viol("reference_changed", det, prop="C04", features=feats)
        return
    if out_pred.shape != in_pred.shape or not np.array_equal(out_pred != 0, in_pred != 0):
        ctx.viol("prediction_foreground_changed", det, prop="C04", features=feats)
        return
    if big and out_pred.dtype.kind == "u" and in_pred.dtype.kind == "u":
        fg = in_pred != 0
        u = np.unique(np.stack([in_pred[fg].astype(np.uint64), out_pred[fg].astype(np.uint64)], axis=1), axis=0)
        pairs = set((int(a), int(b)) for a, b in u.tolist())
    else:
        pairs = set(zip(in_pred.ravel().tolist(), out_pred.ravel().tolist()))
    pairs.discard((0, 0))
    fwd: dict = {}
    for i, o in pairs:
        fwd.setdefault(i, set()).add(o)
    split = {i: sorted(o) for i, o in fwd.items() if len(o) > 1}
    if split:
        ctx.viol("instance_split_by_relabelling", dict(det, split=split), prop="C04", features=feats)
        return
    fwd1 = {i: next(iter(o)) for i, o in fwd.items()}
    ref_labels = set(int(x) for x in np.unique(in_ref) if x != 0)
    # matched predictions carry exactly the label of their reference
    for p, r in M.items():
        if p in fwd1 and fwd1[p] != r:
            ctx.viol("matched_prediction_not_carrying_reference_label", dict(det, pred_label=p, ref_label=r, got=fwd1[p]), prop="C04", features=feats)
            return
    # unmatched predictions: fresh labels distinct from every reference label and from each other
    back: dict = {}
    for i, o in fwd1.items():
        back.setdefault(o, []).append(i)
    for o, ins in back.items():
        unm = [i for i in ins if i not in M]
        if unm and o in ref_labels:
            ctx.viol("unmatched_prediction_got_reference_label", dict(det, out_label=o, inputs=ins), prop="C04", features=feats)
            return
        if len(ins) > 1 and (unm or len({M[i] for i in ins}) > 1):
            ctx.viol("distinct_predictions_merged", dict(det, out_label=o, inputs=ins), prop="C04", features=feats)
            return


# ----------------------------------------------------------------------------- C05: approximation
def _wrap_approx(base):
    orig = base.__dict__["approximate_instances"]

    @functools.wraps(orig)
    def wrapper(self, semantic_pair, *a, **k):
        if "C05" not in S.enabled:
            return orig(self, semantic_pair, *a, **k)
        in_pred = np.array(semantic_pair.prediction_arr, copy=True)
        in_ref = np.array(semantic_pair.reference_arr, copy=True)
        out = orig(self, semantic_pair, *a, **k)
        if too_big(in_pred, in_ref):
            S.ctx.count("skipped_size")
            return out
        if (in_pred < 0).any() or (in_ref < 0).any():
            S.ctx.count("C05.skipped_negative")
            return out
        if S.backend_override is not None:
            be = S.backend_override[0]  # the backend the driver configured (the object's attribute may be stale)
        else:
            be = getattr(self, "cca_backend", "missing")
            if be == "missing":
                raise SystemExit("INCONCLUSIVE reason=approximator has no cca_backend attribute")
            be = None if be is None else be.name
        check_approx(be, in_pred, out.prediction_arr, out.n_prediction_instance, "prediction")
        check_approx(be, in_ref, out.reference_arr, out.n_reference_instance, "reference")
        return out

    base.approximate_instances = wrapper


def check_approx(backend, arr_in, arr_out, n_reported, side):
    ctx = S.ctx
    ctx.count("C05.checked")
    ndim = arr_in.ndim
    mode = ref.backend_mode(backend, ndim)
    vin, vout = ref.vox(arr_in), ref.vox(np.asarray(arr_out))
    feats = {"backend": backend or "default", "ndim": ndim, "mode": mode}
    det = {"side": side, "in": arr_in, "out": np.asarray(arr_out), "n_reported": n_reported, "backend": backend}
    if set(vin) != set(vout):
        ctx.viol("foreground_changed", det, prop="C05", features=feats)
        return
    expected = set(ref.components(vin, mode, ndim))
    got_inst = ref.instances_of(vout)
    n = len(expected)
    if len(expected) > 255:
        ctx.count("f:C05.more_than_255_components")
    if sorted(got_inst) != list(range(1, len(got_inst) + 1)):
        ctx.viol("labels_not_1_to_n", dict(det, labels=sorted(got_inst)[:20]), prop="C05", features=feats)
        return
    got = set(got_inst.values())
    if got != expected:
        kind = "partition_differs"
        for g in got:
            if not any(g <= e for e in expected):
                kind = "instance_not_connected_or_labels_joined"
                break
        else:
            kind = "joinable_instances_left_apart"
        ctx.viol(kind, dict(det, expected_n=n, got_n=len(got)), prop="C05", features=feats)
        return
    if int(n_reported) != n:
        ctx.viol("reported_count_wrong", dict(det, expected_n=n), prop="C05", features=feats)


# ----------------------------------------------------------------------------- C06 / C07: metric calls
def _wrap_metric(cls):
    orig = cls.__dict__["__call__"]

    @functools.wraps(orig)
    def wrapper(self, reference_arr, prediction_arr, ref_instance_idx=None, pred_instance_idx=None, *a, **k):
        name = getattr(self, "name", None)
        want = ("C06" in S.enabled and name in ("DSC", "IOU", "RVD", "clDSC")) or ("C07" in S.enabled and name == "ASSD")
        if not want:
            return orig(self, reference_arr, prediction_arr, ref_instance_idx, pred_instance_idx, *a, **k)
        ra = np.array(reference_arr, copy=True)
        pa = np.array(prediction_arr, copy=True)
        pidx = list(pred_instance_idx) if isinstance(pred_instance_idx, (list, tuple)) else pred_instance_idx
        val = orig(self, reference_arr, prediction_arr, ref_instance_idx, pred_instance_idx, *a, **k)
        if a or k:
            S.ctx.count("metric.skipped_extra_args")
            return val
        if too_big(ra, pa):
            S.ctx.count("skipped_size")
            return val
        check_metric_call(name, ra, pa, ref_instance_idx, pidx, val)
        return val

    cls.__call__ = wrapper


def select(ra, pa, ridx, pidx):
    """voxel sets selected by the labels, by comparing python ints; None if the call is
    outside the property's domain"""
    if (ridx is None) != (pidx is None):
        return None
    if ridx is None:
        for arr in (ra, pa):
            if arr.dtype != bool and not np.isin(arr, (0, 1)).all():
                return None
        R = frozenset(ref.vox(ra))
        P = frozenset(ref.vox(pa))
        return R, P
    def py(x):
        return x.item() if isinstance(x, np.generic) else x

    def raw(arr):  # coordinate -> python value (floats stay floats: a label 1.5 selects the voxels equal to 1.5)
        a = np.asarray(arr)
        idx = np.argwhere(a != 0)
        return dict(zip(map(tuple, idx.tolist()), a[tuple(idx.T)].tolist())) if len(idx) else {}

    labs = pidx if isinstance(pidx, list) else [pidx]
    labs = {py(x) for x in labs}
    ridx = py(ridx)
    R = frozenset(c for c, v in raw(ra).items() if v == ridx) if ridx != 0 else None
    P = frozenset(c for c, v in raw(pa).items() if v in labs) if 0 not in labs else None
    if R is None or P is None:
        return None
    return R, P


def check_metric_call(name, ra, pa, ridx, pidx, val):
    ctx = S.ctx
    sel = select(ra, pa, ridx, pidx)
    prop = "C07" if name == "ASSD" else "C06"
    if sel is None:
        ctx.count(prop + ".skipped_outside_domain")
        return
    R, P = sel
    ndim = ra.ndim
    feats = {"metric": name, "ndim": ndim, "dtype": str(ra.dtype), "selection": ridx is not None, "list": isinstance(pidx, list)}
    det = {"metric": name, "ref": ra, "pred": pa, "ref_idx": ridx, "pred_idx": pidx, "got": pan.pyval(val)}
    if name in ("DSC", "IOU", "RVD"):
        exp = ref.score_exact(name, R, P)
        if exp is None:
            ctx.count("C06.skipped_undefined_quotient")
            return
        ctx.count("C06.checked")
        ctx.count("C06.checked." + name)
        if not isinstance(val, (int, float, np.floating, np.integer)) or not pan.same(float(val), ref.f(exp), abs_=1e-12):
            ctx.viol("value_differs_from_definition", dict(det, expected=ref.f(exp)), prop="C06", features=feats)
        elif name in ("DSC", "IOU") and not (0.0 <= float(val) <= 1.0):
            ctx.viol("overlap_score_outside_unit_interval", det, prop="C06", features=feats)
        elif name in ("DSC", "IOU") and ((float(val) == 1.0) != (R == P and len(R) > 0)):
            ctx.viol("one_iff_identical_broken", det, prop="C06", features=feats)
    elif name == "ASSD":
        if not R or not P:
            ctx.count("C07.skipped_empty_mask")
            return
        exp = ref.assd(R, P, ndim)
        ctx.count("C07.checked")
        if not pan.same(float(val), exp, rel=1e-9, abs_=1e-9):
            ctx.viol("value_differs_from_definition", dict(det, expected=exp), prop="C07", features=feats)
        elif float(val) < 0:
            ctx.viol("negative", det, prop="C07", features=feats)
    elif name == "clDSC":
        if ndim not in (2, 3):
            ctx.count("C06.skipped_cldice_dim")
            return
        from skimage.morphology import skeletonize, skeletonize_3d

        rm = np.zeros(ra.shape, dtype=bool)
        pm = np.zeros(ra.shape, dtype=bool)
        for c in R:
            rm[c] = True
        for c in P:
            pm[c] = True
        sk = skeletonize if ndim == 2 else skeletonize_3d
        sr, sp = sk(rm) != 0, sk(pm) != 0
        if sr.sum() == 0 or sp.sum() == 0:
            ctx.count("C06.skipped_empty_skeleton")
            return
        a = Fraction(int((pm & sr).sum()), int(sr.sum()))  # reference skeleton covered by prediction
        b = Fraction(int((rm & sp).sum()), int(sp.sum()))  # prediction skeleton covered by reference
        if a + b == 0:
            ctx.count("C06.skipped_undefined_quotient")
            return
        exp = ref.f(2 * a * b / (a + b))
        ctx.count("C06.checked")
        ctx.count("C06.checked.clDSC")
        if not pan.same(float(val), exp, abs_=1e-9):
            ctx.viol("value_differs_from_definition", dict(det, expected=exp), prop="C06", features=feats)


# ----------------------------------------------------------------------------- C02: result identities
def _wrap_panoptic_evaluate(mod):
    orig = _need(mod, "panoptic_evaluate")

    @functools.wraps(orig)
    def wrapper(input_pair, *a, **k):
        if "C02" not in S.enabled:
            return orig(input_pair, *a, **k)
        pred = np.array(input_pair.prediction_arr, copy=True)
        refa = np.array(input_pair.reference_arr, copy=True)
        kind = type(input_pair).__name__
        S.last_match = None
        out = orig(input_pair, *a, **k)
        res = out[0]
        if too_big(pred, refa):
            S.ctx.count("skipped_size")
            return out
        try:
            n_pred, n_ref = independent_counts(kind, pred, refa, k.get("instance_approximator"), S.last_match)
        except KeyError:
            S.ctx.count("C02.skipped_unknown_input_kind")
            return out
        metrics = [metric_name(m) for m in k.get("instance_metrics", [])] or ["DSC", "IOU", "ASSD"]
        dm = k.get("decision_metric")
        feats = {
            "input": kind,
            "decision_metric": metric_name(dm) if dm is not None else None,
            "matcher": type(k.get("instance_matcher")).__name__ if k.get("instance_matcher") is not None else None,
        }
        check_result_identities(res, n_pred, n_ref, metrics, feats, {"pred": pred, "ref": refa, "kind": kind},
                                decision=(metric_name(dm), k.get("decision_threshold")) if dm is not None else None)
        return out

    mod.panoptic_evaluate = wrapper


def independent_counts(kind, pred, refa, approximator, last_match):
    if kind == "SemanticPair":
        be = getattr(approximator, "cca_backend", None)
        be = None if be is None else be.name
        mode = ref.backend_mode(be, refa.ndim)
        n_pred = len(ref.components(ref.vox(pred), mode, refa.ndim))
        n_ref = len(ref.components(ref.vox(refa), mode, refa.ndim))
    elif kind in ("UnmatchedInstancePair", "MatchedInstancePair"):
        n_pred = len(set(pred.ravel().tolist()) - {0})
        n_ref = len(set(refa.ravel().tolist()) - {0})
    else:
        raise KeyError(kind)
    if last_match is not None and kind != "MatchedInstancePair":
        M = last_match["M"]
        # predictions assigned to the same reference become one predicted instance
        n_pred -= len(M) - len(set(M.values()))
    return n_pred, n_ref


LIST_KEYS = {"IOU": "sq", "DSC": "sq_dsc", "ASSD": "sq_assd", "RVD": "sq_rvd", "clDSC": "sq_cldsc"}


def check_result_identities(res, n_pred, n_ref, metrics, feats, det, decision=None):
    ctx = S.ctx
    ctx.count("C02.checked")
    r = pan.read_result(res, metrics)
    det = dict(det, result={k: v for k, v in r.items() if k != "lists"}, lists=r["lists"], n_pred=n_pred, n_ref=n_ref)
    tp, fp, fn = r["tp"], r["fp"], r["fn"]

    def bad(kind, **extra):
        ctx.viol(kind, dict(det, **extra), prop="C02", features=feats)

    if not all(isinstance(x, int) for x in (tp, fp, fn)):
        return bad("counts_not_integers")
    if n_pred is not None and (r["num_pred_instances"] != n_pred or tp + fp != n_pred):
        bad("tp_plus_fp_not_number_of_predictions")
    if n_ref is not None and (r["num_ref_instances"] != n_ref or tp + fn != n_ref):
        bad("tp_plus_fn_not_number_of_references")
    if tp < 0 or fp < 0 or fn < 0:
        bad("negative_count")
    for m in metrics:
        lst = r["lists"].get(m)
        if isinstance(lst, str):
            continue
        if len(lst) != tp:
            bad("list_length_differs_from_tp", metric=m, length=len(lst))
            continue
        key = LIST_KEYS[m]
        if tp > 0:
            ctx.count("C02.lists_judged")
            if not pan.same(r[key], ref.mean(lst), rel=1e-9, abs_=1e-12):
                bad("sq_not_mean_of_list", metric=m)
            if not pan.same(r[key + "_std"], ref.pstdev(lst), rel=1e-9, abs_=1e-9):
                bad("sq_std_not_population_std_of_list", metric=m)
            if m in ("IOU", "DSC") and not all(0.0 <= x <= 1.0 for x in lst):
                bad("overlap_score_outside_unit_interval", metric=m)
    if decision is not None and decision[1] is not None and isinstance(r["lists"].get(decision[0]), list):
        dmn, dth = decision
        exact = dmn in ("IOU", "DSC", "RVD")
        for v in r["lists"][dmn]:
            if not exact and v != 0.0 and ref.near(v, dth):
                continue
            ctx.count("C02.decision_values_judged")
            if not ref.meets(dmn, v, dth):
                bad("instance_failing_decision_threshold_counted_as_true_positive", decision_metric=dmn, decision_threshold=dth, value=v)
                break
    den = tp + fp / 2 + fn / 2
    if den > 0:
        if not pan.same(r["rq"], tp / den, abs_=1e-12):
            bad("rq_wrong")
        elif not (0.0 <= r["rq"] <= 1.0):
            bad("rq_outside_unit_interval")
    for sk, pk in (("sq", "pq"), ("sq_dsc", "pq_dsc")):
        s, p, q = r.get(sk), r.get(pk), r.get("rq")
        if isinstance(s, float) and isinstance(q, float) and not isinstance(p, str) and p is not None:
            if not pan.same(p, s * q, abs_=1e-12):
                bad("pq_not_sq_times_rq", key=pk)
            elif tp > 0 and not (0.0 <= p <= 1.0):
                bad("pq_outside_unit_interval", key=pk)
    if tp > 0 and isinstance(r.get("sq"), float) and isinstance(r.get("sq_dsc"), float):
        if r["sq_dsc"] < r["sq"] - 1e-12:
            bad("sq_dsc_below_sq")
    if tp > 0 and (fp > 0 or fn > 0):
        ctx.count("f:C02.tp_with_fp_or_fn")


# ----------------------------------------------------------------------------- install
def install(ctx, enabled):
    S.ctx = ctx
    S.enabled = set(enabled)
    if S.installed:
        return
    S.installed = True
    im = pan._instance_matcher
    base = _need(im, "InstanceMatchingAlgorithm")
    for name in ("NaiveThresholdMatching", "MaximizeMergeMatching"):
        cls = _need(im, name)
        if "_match_instances" not in cls.__dict__:
            raise SystemExit(f"INCONCLUSIVE reason={name}._match_instances not defined on the class")
        _wrap_inner_match(cls)
    if "match_instances" not in base.__dict__:
        raise SystemExit("INCONCLUSIVE reason=InstanceMatchingAlgorithm.match_instances not found")
    _wrap_outer_match(base)
    ia = _need(pan._instance_approximator, "InstanceApproximator")
    if "approximate_instances" not in ia.__dict__:
        raise SystemExit("INCONCLUSIVE reason=InstanceApproximator.approximate_instances not found")
    _wrap_approx(ia)
    mc = _need(pan._metrics_mod, "_Metric")
    if "__call__" not in mc.__dict__:
        raise SystemExit("INCONCLUSIVE reason=_Metric.__call__ not found")
    _wrap_metric(mc)
    _wrap_panoptic_evaluate(pan._panoptica_evaluator)
