"""Tracing, scheduling and failpoints for the aggregator (DESIGN.md 2.4) -- C16, C17.

Locks created by panoptica.panoptica_aggregator are proxied at creation (vf.pan) and report to a hook here;
`open` / `os` of that module and `open` of panoptica.panoptica_statistics are rebound.  Every traced
operation is an event, a scheduling point and a failpoint.
"""

from __future__ import annotations

import builtins
import contextlib
import json
import os as _os
import threading
import time

from vf import pan  # noqa: F401  (puts the tree under check on sys.path)

import panoptica.panoptica_aggregator as PA
import panoptica.panoptica_statistics as PS


class T:
    """global tracer state (per process)"""

    mode = "off"  # off | log | controlled | noise | crash
    events: list = []
    elock = threading.Lock()
    sched = None  # Controlled instance
    rng = None  # noise
    noise_max_ms = 2.0
    split_writes = False
    crash_at = None  # index (1-based) of the traced operation before which the process dies
    crash_graceful = False
    op_counter = 0
    worker_of = {}  # thread ident -> worker id
    event_file = None  # per-pid append-only file in process mode
    installed = False
    locks_traced = True
    real = {}


def worker_id():
    return T.worker_of.get(threading.get_ident(), "main")


def emit(op, obj="", info=None, phase="before"):
    ev = {"t": time.monotonic_ns(), "pid": _os.getpid(), "w": worker_id(), "op": op, "obj": obj, "phase": phase}
    if info is not None:
        ev["info"] = info
    with T.elock:
        ev["seq"] = len(T.events)
        T.events.append(ev)
        if T.event_file is not None:
            T.event_file.write(json.dumps(ev) + "\n")
            T.event_file.flush()
    return ev


def point(op, obj="", info=None, yield_=True):
    """event + failpoint + scheduling point, *before* the operation executes"""
    if T.mode == "off":
        return
    emit(op, obj, info)
    if T.mode == "crash":
        T.op_counter += 1
        if T.crash_at is not None and T.op_counter == T.crash_at:
            die()
    elif T.mode == "controlled" and yield_:
        s = T.sched
        if s is not None and threading.get_ident() in T.worker_of:
            s.yield_point(worker_id(), op, obj, info)
    elif T.mode == "noise" and yield_:
        r = T.rng
        if r is not None:
            x = r.random()
            if x < 0.35:
                time.sleep(0)
            elif x < 0.7:
                time.sleep(r.random() * T.noise_max_ms / 1000.0)


def after(op, obj="", info=None):
    if T.mode == "off":
        return
    emit(op, obj, info, phase="after")


def die():
    """process death between two operations: no buffers flushed, no atexit (unless graceful)"""
    if T.event_file is not None:
        try:
            T.event_file.flush()
        except Exception:  # noqa: BLE001
            pass
    if T.crash_graceful:
        import atexit

        try:
            atexit._run_exitfuncs()
        finally:
            _os._exit(0)
    _os._exit(137)


# ----------------------------------------------------------------------------- traced objects
class LockHook:
    """installed as pan.LOCK_HOOK: every acquire / release of a lock created by the aggregator module"""

    def acquire(self, proxy, *a, **k):
        if T.mode == "off":
            return proxy.real.acquire(*a, **k)
        point("acquire", proxy.name)
        if T.mode == "controlled" and threading.get_ident() in T.worker_of:
            ok = proxy.real.acquire(False)
            if not ok:
                # the model said free but the real lock is held: an acquisition the tracer did not see
                T.sched.note_untraced_block(worker_id(), proxy.name)
                ok = proxy.real.acquire(True, 20)
                if not ok:
                    raise RuntimeError("verif: lock acquisition timed out under the controlled scheduler")
        elif T.mode in ("noise", "crash", "log"):
            ok = proxy.real.acquire(True, 120)
            if not ok:
                emit("acquire_timeout", proxy.name)
                raise RuntimeError("verif: lock acquisition timed out (120 s)")
        else:
            ok = proxy.real.acquire(*a, **k)
        after("acquired", proxy.name)
        return ok

    def release(self, proxy):
        if T.mode == "off":
            return proxy.real.release()
        point("release", proxy.name, yield_=False)
        proxy.real.release()
        if T.mode == "controlled" and T.sched is not None:
            T.sched.lock_released(proxy.name, worker_id())
        after("released", proxy.name)
        # scheduling point between two critical sections
        if T.mode in ("controlled", "noise"):
            point("after_release", proxy.name)


class TracedFile:
    def __init__(self, real, path, mode):
        self._f = real
        self._path = path
        self._mode = mode
        self._name = _os.path.basename(path)

    def write(self, data):
        point("write", self._name, {"n": len(data), "data": data[:200]})
        if T.split_writes and len(data) > 2 and T.mode in ("controlled", "noise"):
            k = len(data) // 2
            self._f.write(data[:k])
            self._f.flush()
            point("write_rest", self._name, {"n": len(data) - k})
            r = self._f.write(data[k:])
            self._f.flush()
        else:
            r = self._f.write(data)
        after("written", self._name)
        return r

    def read(self, *a):
        point("read", self._name)
        return self._f.read(*a)

    def readline(self, *a):
        return self._f.readline(*a)

    def __iter__(self):
        point("read", self._name)
        return iter(self._f)

    def __next__(self):
        return next(self._f)

    def close(self):
        point("close", self._name, {"mode": self._mode})
        r = self._f.close()
        after("closed", self._name, {"mode": self._mode})
        return r

    def __enter__(self):
        return self

    def __exit__(self, *a):
        self.close()
        return False

    def __getattr__(self, k):
        return getattr(self._f, k)


_tls = threading.local()


def traced_open(path, mode="r", *a, **k):
    p = str(path)
    if T.mode == "off":
        return builtins.open(path, mode, *a, **k)
    point("open", _os.path.basename(p), {"mode": mode})
    _tls.in_traced_open = True
    try:
        f = builtins.open(path, mode, *a, **k)
    finally:
        _tls.in_traced_open = False
    after("opened", _os.path.basename(p), {"mode": mode})
    return TracedFile(f, p, mode)


_audit = {"installed": False, "dir": None}


def watch_directory(d):
    """opens of files under d that do NOT go through the module's own `open` (shutil, pathlib, csv helpers ...)
    become scheduling points too, through a sys audit hook"""
    import sys

    _audit["dir"] = _os.path.realpath(d) if d else None
    if _audit["installed"]:
        return

    def hook(event, args):
        if event != "open" or _audit["dir"] is None or T.mode != "controlled" or T.sched is None:
            return
        if getattr(_tls, "in_traced_open", False) or threading.get_ident() not in T.worker_of:
            return
        path, mode = args[0], args[1]
        if not isinstance(path, str) or not _os.path.realpath(path).startswith(_audit["dir"]):
            return
        m = mode if isinstance(mode, str) else ""
        emit("sysopen", _os.path.basename(path), {"mode": m})
        T.sched.yield_point(worker_id(), "sysopen", _os.path.basename(path), {"mode": m})

    sys.addaudithook(hook)
    _audit["installed"] = True


class OsProxy:
    def __init__(self, real):
        self._real = real

    def remove(self, p):
        point("remove", _os.path.basename(str(p)))
        r = self._real.remove(p)
        after("removed", _os.path.basename(str(p)))
        return r

    def __getattr__(self, k):
        return getattr(self._real, k)


def install():
    if T.installed:
        return
    # every lock the aggregator module created (under whatever name, see vf.pan) reports to the hook; without
    # any such lock the controlled scheduler cannot model blocking: file operations are still traced, and the
    # thread / process histories (real synchronisation, whatever it is) are still judged
    pan.LOCK_HOOK = LockHook()
    T.locks_traced = len(pan.LOCK_PROXIES) > 0
    PA.open = traced_open
    if hasattr(PA, "os"):
        PA.os = OsProxy(PA.os)
    PS.open = traced_open
    T.installed = True


def fresh_locks():
    """new unlocked lock objects, as a new process would have (used after fork in C17)"""
    for proxy in pan.LOCK_PROXIES:
        proxy.fresh()


def reset(mode="off", **kw):
    T.mode = mode
    T.events = []
    T.sched = None
    T.rng = kw.get("rng")
    T.split_writes = kw.get("split_writes", False)
    T.crash_at = kw.get("crash_at")
    T.crash_graceful = kw.get("graceful", False)
    T.op_counter = 0
    T.worker_of = {}
    T.noise_max_ms = kw.get("noise_max_ms", 2.0)


# ----------------------------------------------------------------------------- controlled scheduler
class Deadlock(Exception):
    pass


class Controlled:
    """cooperative scheduler: exactly one managed worker runs between two scheduling points.

    strategy: callable(step, runnable(list of worker ids), last, info) -> chosen worker id
    """

    def __init__(self, strategy, watchdog_s=30.0):
        self.cv = threading.Condition()
        self.state = {}  # worker -> new | waiting | running | done
        self.pending = {}  # worker -> (op, obj)
        self.owner = {}  # lock name -> worker
        self.strategy = strategy
        self.trace = []  # (worker, op, obj)
        self.choices = []  # (n_runnable, chosen index)
        self.deadlock = None
        self.untraced = []
        self.watchdog_s = watchdog_s
        self.timed_out = False
        self.errors = {}
        self.last = None
        self.preemptions = 0
        self.pending_info = {}
        self.granted_info = {}  # worker -> (op, obj, info) of the point it was last released from

    # called by workers ------------------------------------------------------------------
    def yield_point(self, w, op, obj, info=None):
        with self.cv:
            self.pending[w] = (op, obj)
            self.pending_info[w] = info
            self.state[w] = "waiting"
            self.cv.notify_all()
            while self.state[w] != "running":
                self.cv.wait()
                if self.deadlock is not None or self.timed_out:
                    raise Deadlock()

    def lock_released(self, name, w=None):
        with self.cv:
            o = self.owner.get(name)
            if o is not None and o[1] > 1:
                self.owner[name] = (o[0], o[1] - 1)
            else:
                self.owner.pop(name, None)

    def note_untraced_block(self, w, name):
        self.untraced.append((w, name))

    def _enabled(self, w):
        op, obj = self.pending[w]
        if op == "acquire":
            o = self.owner.get(obj)
            return o is None or (o[0] == w and obj.endswith("R"))  # re-entrant locks may be re-acquired by their owner
        return True

    # main loop ---------------------------------------------------------------------------
    def run(self, fns):
        """fns: dict worker id -> callable; returns after all workers finished or deadlock"""
        threads = {}

        def body(w, fn):
            T.worker_of[threading.get_ident()] = w
            try:
                self.yield_point(w, "start", "")
                fn()
            except Deadlock:
                pass
            except BaseException as e:  # noqa: BLE001
                self.errors[w] = repr(e)[:400]
            finally:
                with self.cv:
                    self.state[w] = "done"
                    self.cv.notify_all()

        for w, fn in fns.items():
            self.state[w] = "new"
            t = threading.Thread(target=body, args=(w, fn), daemon=True)
            threads[w] = t
        for t in threads.values():
            t.start()
        step = 0
        with self.cv:
            while True:
                deadline = time.monotonic() + self.watchdog_s
                while any(s in ("new", "running") for s in self.state.values()):
                    left = deadline - time.monotonic()
                    if left <= 0:
                        self.timed_out = True
                        T.mode = "off"
                        self.cv.notify_all()
                        return "watchdog"
                    self.cv.wait(left)
                waiting = sorted(w for w, s in self.state.items() if s == "waiting")
                if not waiting:
                    return "done"
                runnable = [w for w in waiting if self._enabled(w)]
                if not runnable:
                    self.deadlock = {w: self.pending[w] for w in waiting}
                    T.mode = "off"
                    self.cv.notify_all()
                    return "deadlock"
                w = self.strategy(step, runnable, self.last, self)
                self.choices.append((len(runnable), runnable.index(w)))
                if self.last is not None and self.last != w and self.last in runnable:
                    self.preemptions += 1
                op, obj = self.pending[w]
                if op == "acquire":
                    o = self.owner.get(obj)
                    self.owner[obj] = (w, (o[1] + 1) if o is not None else 1)
                self.trace.append((w, op, obj))
                self.granted_info[w] = (op, obj, self.pending_info.get(w))
                self.last = w
                self.state[w] = "running"
                step += 1
                self.cv.notify_all()


# ----------------------------------------------------------------------------- strategies
def random_walk(rng):
    def choose(step, runnable, last, sched):
        return runnable[int(rng.integers(0, len(runnable)))]

    return choose


def pct(rng, workers, depth, est_steps=60):
    prio = {w: float(p) for w, p in zip(workers, rng.permutation(len(workers)) + depth)}
    change = sorted(int(x) for x in rng.integers(0, est_steps, size=max(0, depth - 1)))
    low = [depth - 1]

    def choose(step, runnable, last, sched):
        while change and change[0] <= step:
            change.pop(0)
            if last is not None:
                low[0] -= 1
                prio[last] = low[0]
        return max(runnable, key=lambda w: prio[w])

    return choose


def focused_walk(rng, p_io=0.5, p_other=0.03):
    """random walk that keeps running the same worker and preempts it mostly where shared state is touched
    outside the module's own statements: at file operations, lock boundaries and inside stdlib helpers"""

    def choose(step, runnable, last, sched):
        if last in runnable and len(runnable) > 1:
            op, obj = sched.pending[last]
            hot = op in ("open", "write", "write_rest", "read", "close", "remove", "after_release", "eval_begin") or (op == "line" and not obj.startswith("panoptica_"))
            if rng.random() >= (p_io if hot else p_other):
                return last
            others = [w for w in runnable if w != last]
            return others[int(rng.integers(0, len(others)))]
        return runnable[int(rng.integers(0, len(runnable)))]

    return choose


def writer_freeze(rng, budget=400):
    """after a worker has opened a file for writing (truncation / append has just happened, its data is not there
    yet) it is frozen at its next scheduling point while the other workers run (random walk), until none of them
    can run or a step budget is used up -- aimed at readers that can see a half-written shared file"""
    state = {"frozen": None, "left": 0}

    def is_write_open(g):
        return g is not None and g[0] in ("open", "sysopen") and any(c in ((g[2] or {}).get("mode") or "") for c in "wax+")

    def choose(step, runnable, last, sched):
        if state["frozen"] is not None:
            others = [w for w in runnable if w != state["frozen"]]
            state["left"] -= 1
            if others and state["left"] > 0:
                return others[int(rng.integers(0, len(others)))]
            w, state["frozen"] = state["frozen"], None
            if w in runnable:
                return w
        if last in runnable and len(runnable) > 1 and is_write_open(sched.granted_info.get(last)) and rng.random() < 0.7:
            state["frozen"], state["left"] = last, budget
            sched.granted_info[last] = None
            others = [w for w in runnable if w != last]
            return others[int(rng.integers(0, len(others)))]
        if last in runnable and rng.random() < 0.9:
            return last
        return runnable[int(rng.integers(0, len(runnable)))]

    return choose


class DFS:
    """systematic exploration of choice sequences with a preemption bound (stateless:
    every schedule is a fresh execution that replays a prefix of choices)"""

    def __init__(self, bound):
        self.bound = bound
        self.prefix = []  # list of chosen indices to replay
        self.stack = []  # per step: (n_options_allowed, chosen)
        self.done = False

    def strategy(self):
        prefix = list(self.prefix)
        record = []
        state = {"preempt": 0}

        def choose(step, runnable, last, sched):
            # options: continuing the last worker is free; switching while it is runnable costs one preemption
            if last in runnable:
                opts = [last] + ([w for w in runnable if w != last] if state["preempt"] < self.bound else [])
            else:
                opts = list(runnable)
            i = prefix[step] if step < len(prefix) else 0
            i = min(i, len(opts) - 1)
            record.append((len(opts), i))
            w = opts[i]
            if last in runnable and w != last:
                state["preempt"] += 1
            return w

        self._record = record
        return choose

    def advance(self):
        """compute the next prefix from the last recorded run; False when exhausted"""
        rec = self._record
        k = len(rec) - 1
        while k >= 0 and rec[k][1] + 1 >= rec[k][0]:
            k -= 1
        if k < 0:
            self.done = True
            return False
        self.prefix = [c for _, c in rec[:k]] + [rec[k][1] + 1]
        return True


def interleaving_hash(trace):
    import hashlib

    return hashlib.blake2b(repr(trace).encode(), digest_size=8).hexdigest()


# ----------------------------------------------------------------------------- line-level scheduling points
_LINE_TOOL = 4
_line_state = {"on": False, "files": set()}


def enable_line_points(extra_files=()):
    """every source line executed by a managed worker inside the aggregator / statistics modules (and the
    stdlib helpers they may copy files with) becomes a scheduling point of the controlled scheduler -- reaches
    interleavings between operations that do not go through the traced locks / open (sys.monitoring, 3.12+)"""
    import shutil
    import sys

    mon = getattr(sys, "monitoring", None)
    if mon is None:
        return False
    files = {PA.__file__, PS.__file__, shutil.__file__} | set(extra_files)
    _line_state["files"] = files
    if _line_state["on"]:
        mon.restart_events()
        return True

    def on_line(code, line):
        if code.co_filename not in _line_state["files"]:
            return mon.DISABLE
        if T.mode != "controlled" or T.sched is None:
            return None
        if threading.get_ident() in T.worker_of:
            T.sched.yield_point(worker_id(), "line", "%s:%d" % (_os.path.basename(code.co_filename), line))
        return None

    try:
        mon.use_tool_id(_LINE_TOOL, "verif-lines")
    except ValueError:
        return False
    mon.register_callback(_LINE_TOOL, mon.events.LINE, on_line)
    mon.set_events(_LINE_TOOL, mon.events.LINE)
    # locations that returned DISABLE under an earlier, smaller file set stay disabled until restarted
    mon.restart_events()
    _line_state["on"] = True
    return True


def disable_line_points():
    import sys

    if _line_state["on"]:
        mon = sys.monitoring
        mon.set_events(_LINE_TOOL, 0)
        mon.register_callback(_LINE_TOOL, mon.events.LINE, None)
        mon.free_tool_id(_LINE_TOOL)
        _line_state["on"] = False


@contextlib.contextmanager
def coarse_timestamps(grid_s: float = 2.0):
    """what os.stat / os.lstat / os.fstat (and so pathlib and os.path.getmtime) report as modification time is
    floored to a grid of `grid_s` seconds, as on file systems with coarse timestamps (FAT: 2 s; some network file
    systems: 1 s).  Forked children inherit the patch.  Nothing else about the file system changes."""
    import os

    real = {n: getattr(os, n) for n in ("stat", "lstat", "fstat")}
    grid = int(grid_s * 1_000_000_000)

    def coarse(fn):
        def wrapper(*a, **k):
            st = fn(*a, **k)
            tup, dct = st.__reduce__()[1]
            ns = dct["st_mtime_ns"] // grid * grid
            tup = list(tup)
            tup[8] = ns // 1_000_000_000
            return os.stat_result(tuple(tup), dict(dct, st_mtime=ns / 1e9, st_mtime_ns=ns))

        return wrapper

    for n, fn in real.items():
        setattr(os, n, coarse(fn))
    try:
        yield
    finally:
        for n, fn in real.items():
            setattr(os, n, fn)
