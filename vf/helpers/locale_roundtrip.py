"""Helper process for C18 / C20: runs in an interpreter whose locale encoding is NOT UTF-8 (LC_ALL=C, PYTHONUTF8=0,
PYTHONCOERCECLOCALE=0; stdout kept UTF-8 through PYTHONIOENCODING so the library's progress lines can be printed).
Writes a table with non-ASCII subject and group names through the real Panoptica_Aggregator, loads it with the real
Panoptica_Statistic, and reports what came back (JSON on the last line of stdout).

usage: python -m vf.helpers.locale_roundtrip <workdir> <seed>"""

import json
import locale
import os
import sys

import numpy as np


def main(workdir, seed):
    from vf import pan
    from panoptica import Panoptica_Aggregator, Panoptica_Statistic

    r = np.random.default_rng(seed)
    groups = ["läsion", "Ödem_" + "αβγ"[seed % 3], "plain"][: 2 + seed % 2]
    subjects = ["sujet_é%d" % seed, "患者%d" % seed, "plain_%d" % seed, "Ωmega %d" % seed]
    gdef = {g: {"labels": [2 * k + 1, 2 * k + 2], "kind": "plain", "single": False} for k, g in enumerate(groups)}
    cfg = {"input": "MATCHED_INSTANCE", "matcher": None, "groups": gdef, "metrics": ["DSC", "IOU"], "global": ["DSC"]}
    ev = pan.make_evaluator(cfg)
    path = os.path.join(workdir, "results_%d.tsv" % seed)  # (the file system encoding of this process is ASCII)
    agg = Panoptica_Aggregator(ev, path)
    expected = {}
    for s in subjects:
        refa = np.zeros((6, 8), dtype=np.uint8)
        pred = np.zeros((6, 8), dtype=np.uint8)
        for k in range(len(groups)):
            w = int(r.integers(2, 6))
            refa[k * 2, 0:6] = 2 * k + 1
            pred[k * 2, 0:w] = 2 * k + 1
        with pan.quiet():
            agg.evaluate(pred, refa, s)
        with pan.quiet():
            res = ev.evaluate(pred, refa, verbose=False)
        expected[s] = {g.lower(): float(res[g.lower()][0].sq) if hasattr(res[g.lower()], "__getitem__") else None for g in groups}
    with pan.quiet():
        st = Panoptica_Statistic.from_file(path)
    got = {}
    for s in st.subjectnames:
        one = st.get_one_subject(s)
        got[s] = {g: one[g].get("sq") for g in one}
    return {"encoding": locale.getpreferredencoding(False), "subjects_written": subjects, "groups": [g.lower() for g in groups],
            "subjects_read": list(st.subjectnames), "groups_read": list(st.groupnames), "expected_sq": expected, "got_sq": got}


if __name__ == "__main__":
    try:
        out = main(sys.argv[1], int(sys.argv[2]))
    except Exception as e:  # noqa: BLE001
        out = {"ERR": "%s: %r" % (type(e).__name__, e), "encoding": locale.getpreferredencoding(False)}
    sys.stdout.write("\n" + json.dumps(out) + "\n")
