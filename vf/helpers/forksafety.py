"""Helper process for C16 (fork-safety monitor): threads share one real Panoptica_Aggregator whose evaluator uses the
REAL multiprocessing pools, so every evaluation forks worker processes while other threads are inside the package's
code.  Every threading lock a module of the package creates is an `OwnedLock` (vf.pan): it knows its holder.  A
thread that has just taken such a lock is held there (injected delay at a point where the interpreter may switch
threads anyway) until another thread forks or a few milliseconds pass; a forked process that then tries to take a
lock whose holder does not exist in it can never get it -- it writes a witness before it blocks as the real code does.

The verdict is taken from witnesses and rows only; the wall-clock watchdog alone means inconclusive.

usage: python -m vf.helpers.forksafety <workdir> <seed> <profile index>     (JSON on the last line of stdout)"""

import json
import os
import sys
import threading
import time

os.environ["VERIF_REAL_POOL"] = "1"

import numpy as np  # noqa: E402

PROFILES = [
    # ASSD in the calling thread (global metric) and in the pool workers (instance metric)
    {"input": "UNMATCHED_INSTANCE", "matcher": {"kind": "naive", "metric": "IOU", "thr": 0.3}, "metrics": ["ASSD", "DSC"], "global": ["ASSD", "DSC"]},
    {"input": "SEMANTIC", "backend": None, "matcher": {"kind": "naive", "metric": "IOU", "thr": 0.3}, "metrics": ["DSC", "IOU", "RVD", "ASSD"], "global": ["DSC", "IOU", "ASSD", "RVD"]},
    {"input": "UNMATCHED_INSTANCE", "matcher": {"kind": "merge", "metric": "DSC", "thr": 0.3}, "metrics": ["DSC", "ASSD", "clDSC"], "global": ["clDSC", "ASSD"]},
    {"input": "SEMANTIC", "backend": "scipy", "matcher": {"kind": "naive", "metric": "ASSD", "thr": 5.0}, "metrics": ["DSC", "IOU"], "global": ["RVD", "ASSD"]},
]


def subject(k, dim3):
    shape = (3, 9, 10) if dim3 else (9, 10)
    refa = np.zeros(shape, dtype=np.uint8)
    pred = np.zeros(shape, dtype=np.uint8)
    rv, pv = (refa[1], pred[1]) if dim3 else (refa, pred)
    for j in range(3):
        rv[1 + 3 * j : 3 + 3 * j, 1:8] = j + 1
        a = 1 + (k + j) % 3
        pv[1 + 3 * j : 3 + 3 * j, a : a + 4 + (k + 2 * j) % 3] = j + 1
    pv[8, 1 + k % 7] = 4
    return pred, refa


def main(workdir, seed, pidx):
    from vf import pan
    from panoptica import Panoptica_Aggregator

    r = np.random.default_rng([seed, pidx])
    wit = os.path.join(workdir, "witness")
    os.makedirs(wit, exist_ok=True)
    pan.FORKSAFETY["dir"] = wit
    fork_seen = threading.Event()
    stats = {"holds": 0, "holds_ended_by_fork": 0}
    hold_ms = float(r.choice([5, 20, 60]))

    def on_fork():
        fork_seen.set()

    def hold(lock):
        # only worker threads of this process; a forked child (pool worker) never waits
        if os.getpid() != PARENT or threading.current_thread() is threading.main_thread():
            return
        stats["holds"] += 1
        fork_seen.clear()
        if fork_seen.wait(hold_ms / 1000.0):
            stats["holds_ended_by_fork"] += 1
            # stay until the other thread has created all its workers (no fork for a few milliseconds), within bounds
            end = time.monotonic() + 0.4
            while time.monotonic() < end:
                fork_seen.clear()
                if not fork_seen.wait(0.006):
                    break

    pan.FORKSAFETY["on_fork"] = on_fork
    pan.FORKSAFETY["hold"] = hold
    cfg = PROFILES[pidx % len(PROFILES)]
    ev = pan.make_evaluator(cfg)
    path = os.path.join(workdir, "out.tsv")
    agg = Panoptica_Aggregator(ev, path)
    nthreads = int(r.integers(2, 5))
    per = 2
    names = [[f"t{t}_s{j}" for j in range(per)] for t in range(nthreads)]
    errors = []
    done = []
    inside = [0]
    overlap = [0]
    ilock = pan._ORIG_LOCKS["th.Lock"]()

    def body(t):
        for j, n in enumerate(names[t]):
            pred, refa = subject(t * per + j, dim3=bool((t + j + seed) % 2))
            with ilock:
                inside[0] += 1
                if inside[0] > 1:
                    overlap[0] += 1
            try:
                agg.evaluate(pred, refa, n)
                done.append(n)
            except BaseException as e:  # noqa: BLE001
                errors.append(f"{n}: {type(e).__name__}: {e!r}"[:300])
            finally:
                with ilock:
                    inside[0] -= 1

    threads = [threading.Thread(target=body, args=(t,), daemon=True) for t in range(nthreads)]
    real_stdout = sys.stdout
    sys.stdout = open(os.devnull, "w")
    t0 = time.monotonic()
    for th in threads:
        th.start()
    deadline = t0 + float(os.environ.get("VERIF_FORKSAFETY_WATCHDOG", "90"))
    seen_at = None
    while any(th.is_alive() for th in threads) and time.monotonic() < deadline:
        time.sleep(0.05)
        if seen_at is None and os.listdir(wit):
            seen_at = time.monotonic()  # a process waits for a lock nobody in it holds: its caller cannot return any more
        if seen_at is not None and time.monotonic() - seen_at > 3.0:
            break
    stuck = [n for t, th in enumerate(threads) if th.is_alive() for n in names[t] if n not in done]
    sys.stdout = real_stdout
    witnesses = []
    for f in sorted(os.listdir(wit)):
        with open(os.path.join(wit, f)) as fh:
            witnesses.append(json.load(fh))
    rows = {}
    if os.path.exists(path):
        import csv

        with open(path, newline="", encoding="utf8") as fh:
            for i, row in enumerate(csv.reader(fh, delimiter="\t")):
                if i > 0 and row:
                    rows[row[0]] = rows.get(row[0], 0) + 1
    out = {
        "profile": pidx % len(PROFILES), "threads": nthreads, "subjects": [n for ns in names for n in ns], "done": sorted(done), "stuck": stuck, "errors": errors,
        "rows": rows, "witnesses": witnesses, "owned_locks": [{"module": l.created_in, "line": l.lineno} for l in pan.OWNED_LOCKS],
        "acquisitions": pan.FORKSAFETY["acquisitions"], "forks": pan.FORKSAFETY["forks"], "forks_with_lock_held_elsewhere": pan.FORKSAFETY["forks_with_lock_held_elsewhere"],
        "holds": stats["holds"], "holds_ended_by_fork": stats["holds_ended_by_fork"], "overlapping_evaluations": overlap[0], "hold_ms": hold_ms,
        "pool_sites": list(pan.POOL_SITES), "wall_s": round(time.monotonic() - t0, 2),
    }
    print(json.dumps(out))
    sys.stdout.flush()
    # stuck threads sit in pool.starmap with blocked workers: leave without joining anything
    import signal

    try:
        os.killpg(os.getpgid(0), signal.SIGKILL) if os.environ.get("VERIF_FORKSAFETY_OWN_GROUP") else None
    finally:
        os._exit(0)


PARENT = os.getpid()

if __name__ == "__main__":
    main(sys.argv[1], int(sys.argv[2]), int(sys.argv[3]))
