"""Helper process for C17: one aggregator session in an interpreter whose locale encoding is NOT UTF-8 (LC_ALL=C,
PYTHONUTF8=0, PYTHONCOERCECLOCALE=0).  Subject names are non-ASCII.  The session submits the given subjects in order and
is killed (os._exit(137), no exit handlers) after `kill_after` completed evaluate() calls (-1: normal exit).  The driver
runs a first session that is killed and a second one in a new interpreter that submits everything again, then reads the
file itself (as UTF-8) and judges it.

usage: python -m vf.helpers.locale_restart <output path> <kill_after> <subject index> ...   (JSON on the last stdout line)"""

import json
import locale
import os
import sys

import numpy as np

SUBJECTS = ["Müller_01", "患者_2", "sujet é 3", "plain_4", "Ωmega-5", "naïve_6"]


def subject_input(k):
    refa = np.zeros(16, dtype=np.uint8)
    pred = np.zeros(16, dtype=np.uint8)
    refa[1 : 5 + k] = 1
    pred[2 : 5 + k] = 1
    refa[12:15] = 2
    pred[12 : 13 + (k % 3)] = 2
    return pred, refa


CFG = {"input": "UNMATCHED_INSTANCE", "matcher": {"kind": "naive", "metric": "IOU", "thr": 0.5}, "metrics": ["DSC", "IOU", "RVD"], "global": ["DSC"]}


def main(path, kill_after, idx):
    from vf import pan
    from panoptica import Panoptica_Aggregator

    with pan.quiet():
        agg = Panoptica_Aggregator(pan.make_evaluator(CFG), path)
    n = 0
    for k in idx:
        if n == kill_after:
            sys.stdout.write("\n" + json.dumps({"killed_after": n, "encoding": locale.getpreferredencoding(False)}) + "\n")
            sys.stdout.flush()
            os._exit(137)
        with pan.quiet():
            agg.evaluate(*subject_input(k), SUBJECTS[k])
        n += 1
    return {"completed": n, "encoding": locale.getpreferredencoding(False)}


if __name__ == "__main__":
    try:
        out = main(sys.argv[1], int(sys.argv[2]), [int(x) for x in sys.argv[3:]])
    except BaseException as e:  # noqa: BLE001
        out = {"ERR": "%s: %r" % (type(e).__name__, e), "encoding": locale.getpreferredencoding(False)}
    sys.stdout.write("\n" + json.dumps(out) + "\n")
