"""Sensitivity runner: applies each catalogue entry (or the patches kept under /verif/seeded)
to a scratch worktree of /repo, runs the repository's tests and the targeted quick checks.

usage: python -m vf.selftest.run [--only name-or-property ...] [--seeded] [--jobs 2] [--tier quick]
Never touches /repo's working tree; scratch copies live under /tmp and are removed.
"""

from __future__ import annotations

import argparse
import concurrent.futures as cf
import glob
import json
import os
import re
import shutil
import subprocess
import tempfile
import time

HERE = os.path.dirname(os.path.dirname(os.path.dirname(os.path.abspath(__file__))))
PY = "/venv/bin/python"
DESELECT = [
    "--deselect", "unit_tests/test_panoptic_aggregator.py::Test_Example_Scripts",
    "--deselect", "unit_tests/test_panoptic_evaluator.py::Test_Example_Scripts",
]


def scratch(commit="HEAD"):
    d = tempfile.mkdtemp(prefix="selftest_", dir="/tmp")
    subprocess.check_call(["git", "-C", "/repo", "worktree", "add", "-q", "--detach", d + "/repo", commit], stdout=subprocess.DEVNULL, stderr=subprocess.DEVNULL)
    return d


def cleanup(d):
    subprocess.call(["git", "-C", "/repo", "worktree", "remove", "--force", d + "/repo"], stdout=subprocess.DEVNULL, stderr=subprocess.DEVNULL)
    shutil.rmtree(d, ignore_errors=True)


def repo_tests(repo):
    env = dict(os.environ, PYTHONPATH=repo, PANOPTICA_CITATION_REMINDER="false")
    p = subprocess.run([PY, "-m", "pytest", "-q", "-p", "no:cacheprovider", "--timeout=900", "unit_tests"] + DESELECT, cwd=repo, env=env, capture_output=True, text=True)
    m = re.search(r"(\d+) passed", p.stdout)
    f = re.search(r"(\d+) failed", p.stdout)
    return int(m.group(1)) if m else 0, int(f.group(1)) if f else 0


def run_check(repo, prop, tier, shards):
    env = dict(os.environ, VERIF_REPO=repo, VERIF_NO_EVIDENCE="1", VERIF_SHARDS=str(shards))
    t0 = time.monotonic()
    p = subprocess.run([os.path.join(HERE, "check"), prop, "--tier", tier], cwd=HERE, env=env, capture_output=True, text=True)
    kinds = sorted(set(re.findall(r"kind=(\S+)", p.stdout)))
    return {"rc": p.returncode, "wall": round(time.monotonic() - t0, 1), "kinds": kinds[:6],
            "verdict": "killed" if p.returncode == 1 else "survived" if p.returncode == 0 else "inconclusive",
            "tail": p.stdout[-300:] if p.returncode == 2 else ""}


def one(entry, tier, shards):
    name, props, edits, patch = entry
    d = scratch()
    repo = d + "/repo"
    out = {"name": name, "properties": props}
    try:
        if patch:
            r = subprocess.run(["git", "-C", repo, "apply", patch], capture_output=True, text=True)
            base = None
            if r.returncode != 0:
                # a later fix: commit touched the same lines: the change is applied to the commit it was written for
                # (meta.json: base_commit), i.e. to a tree that lacks the later fixes
                try:
                    base = json.load(open(os.path.join(os.path.dirname(patch), "meta.json"))).get("base_commit")
                except Exception:  # noqa: BLE001
                    base = None
                # without a recorded base: the newest earlier commit of /repo on which the change applies
                candidates = [base] if base else subprocess.run(["git", "-C", "/repo", "log", "--format=%h", "-n", "30"], capture_output=True, text=True).stdout.split()[1:]
                for base in candidates:
                    cleanup(d)
                    d = scratch(base)
                    repo = d + "/repo"
                    r = subprocess.run(["git", "-C", repo, "apply", patch], capture_output=True, text=True)
                    if r.returncode == 0:
                        out["applied_on"] = base
                        break
            if r.returncode != 0:
                out["status"] = "does_not_apply"
                out["error"] = r.stderr[-300:]
                return out
        for f, old, new in edits:
            p = os.path.join(repo, f)
            s = open(p).read()
            if s.count(old) != 1:
                out["status"] = "does_not_apply"
                out["error"] = f"{f}: old text occurs {s.count(old)} times"
                return out
            open(p, "w").write(s.replace(old, new))
        passed, failed = repo_tests(repo)
        out["repo_tests"] = {"passed": passed, "failed": failed}
        if passed != 80 or failed:
            out["status"] = "discarded_fails_repo_tests"
            return out
        out["checks"] = {pr: run_check(repo, pr, tier, shards) for pr in props}
        out["status"] = "killed" if any(c["verdict"] == "killed" for c in out["checks"].values()) else "SURVIVED"
        return out
    finally:
        cleanup(d)


def main():
    ap = argparse.ArgumentParser()
    ap.add_argument("--only", nargs="*", default=[])
    ap.add_argument("--seeded", action="store_true")
    ap.add_argument("--refactorings", action="store_true", help="property-preserving refactorings: expected verdict is held")
    ap.add_argument("--jobs", type=int, default=2)
    ap.add_argument("--tier", default="quick")
    ap.add_argument("--out", default=None)
    a = ap.parse_args()
    entries = []
    if a.seeded or a.refactorings:
        for meta in sorted(glob.glob(os.path.join(HERE, "refactorings" if a.refactorings else "seeded", "*", "meta.json"))):
            m = json.load(open(meta))
            entries.append((os.path.basename(os.path.dirname(meta)), m.get("checks", [m["property"]]), [], os.path.join(os.path.dirname(meta), "patch.diff")))
    else:
        from vf.selftest.catalogue import CATALOGUE

        entries = [(n, p, e, None) for n, p, e in CATALOGUE]
    if a.only:
        entries = [e for e in entries if any(o == e[0] or o in e[1] or o in e[0] for o in a.only)]
    shards = max(2, 16 // a.jobs)
    results = []
    with cf.ThreadPoolExecutor(a.jobs) as ex:
        for r in ex.map(lambda e: one(e, a.tier, shards), entries):
            results.append(r)
            chk = {k: (v["verdict"], v["wall"], v["kinds"][:2]) for k, v in r.get("checks", {}).items()}
            print(f"{r['name']:45s} {r['status']:28s} {chk if chk else r.get('error', r.get('repo_tests', ''))}", flush=True)
    if a.refactorings:
        for r in results:
            vs = [c["verdict"] for c in r.get("checks", {}).values()]
            if vs:
                r["status"] = "FALSE_ALARM" if "killed" in vs else "inconclusive" if "inconclusive" in vs else "held_as_expected"
    out = a.out or os.path.join(HERE, "vf", "selftest", "results_refactorings.json" if a.refactorings else "results_seeded.json" if a.seeded else "results.json")
    prev = {}
    if os.path.exists(out) and a.only:
        prev = {r["name"]: r for r in json.load(open(out))}
    for r in results:
        prev[r["name"]] = r
    json.dump(list(prev.values()) if a.only else results, open(out, "w"), indent=1)
    n = {s: sum(1 for r in results if r["status"] == s) for s in sorted({r["status"] for r in results})}
    print("summary:", n)


if __name__ == "__main__":
    main()
