"""Catalogue of property-breaking changes used to validate the monitors (DESIGN.md section 7).

Each entry: (name, properties expected to notice, [(file, old, new), ...]).  The runner applies
one entry to a scratch worktree of /repo (never to /repo), runs the repository's own tests (a
change that fails them is discarded as not realistic), runs the quick check(s) with VERIF_REPO
pointing at the copy and records killed / survived.
"""

F = "panoptica/_functionals.py"
M = "panoptica/metrics/metrics.py"
IM = "panoptica/instance_matcher.py"
IE = "panoptica/instance_evaluator.py"
IA = "panoptica/instance_approximator.py"
PR = "panoptica/panoptica_result.py"
PE = "panoptica/panoptica_evaluator.py"
PA = "panoptica/panoptica_aggregator.py"
PS = "panoptica/panoptica_statistics.py"
NU = "panoptica/utils/numpy_utils.py"
LG = "panoptica/utils/label_group.py"
EC = "panoptica/utils/edge_case_handling.py"
ASSD = "panoptica/metrics/assd.py"
CLD = "panoptica/metrics/cldice.py"
RVD = "panoptica/metrics/relative_volume_difference.py"
PP = "panoptica/utils/processing_pair.py"

CATALOGUE = [
    # ---- C01 / C03: thresholds, ordering
    ("ge_to_gt_threshold", ["C01", "C03"], [(M, "        return (self.increasing and matching_score >= matching_threshold) or (\n            self.decreasing and matching_score <= matching_threshold\n        )\n\n    @property\n    def name(self):", "        return (self.increasing and matching_score > matching_threshold) or (\n            self.decreasing and matching_score < matching_threshold\n        )\n\n    @property\n    def name(self):")]),
    ("yaml_threshold_rounded_2", ["C19"], [(IM, '            "matching_threshold": node._matching_threshold,\n        }', '            "matching_threshold": round(node._matching_threshold, 2),\n        }')]),
    ("no_copy_anywhere_on_edge_path", ["C15"], [(LG, "        array = array.copy()\n        return array", "        return array"), (PR, "            pred_binary = prediction_arr.copy()\n            ref_binary = reference_arr.copy()\n            pred_binary[pred_binary != 0] = 1\n            ref_binary[ref_binary != 0] = 1\n            arrays_present = True", "            pred_binary = prediction_arr\n            ref_binary = reference_arr\n            pred_binary[pred_binary != 0] = 1\n            ref_binary[ref_binary != 0] = 1\n            arrays_present = True")]),
    ("sort_always_descending", ["C01", "C03"], [(F, "reverse=not matching_metric.decreasing", "reverse=True")]),
    ("std_sample_instead_of_population", ["C01", "C02"], [(M, "else empty_list_std if len(self.ALL) == 0 else np.std(self.ALL)", "else empty_list_std if len(self.ALL) == 0 else np.std(self.ALL, ddof=1 if len(self.ALL) > 1 else 0)")]),
    ("default_backend_gt3", ["C01", "C05"], [(IA, "CCABackend.cc3d if semantic_pair.n_dim >= 3 else CCABackend.scipy", "CCABackend.cc3d if semantic_pair.n_dim > 3 else CCABackend.scipy")]),
    # ---- C02
    ("tp_from_matched_labels", ["C02", "C01"], [(IE, "    tp = 0\n", "    tp = len(matched_instance_pair.matched_instances)\n"), (IE, "            tp += 1\n", "")]),
    ("rq_fp_not_halved", ["C02", "C01"], [(PR, "    return res.tp / (res.tp + 0.5 * res.fp + 0.5 * res.fn)", "    return res.tp / (res.tp + res.fp + 0.5 * res.fn) if res.fp > 2 else res.tp / (res.tp + 0.5 * res.fp + 0.5 * res.fn)")]),
    # ---- C03
    ("contains_or_to_and", ["C03", "C01"], [(IM, "labelmap.contains_or(pred_label, ref_label)", "labelmap.contains_and(pred_label, ref_label)")]),
    ("overlap_filter_too_strict", ["C03", "C01"], [(F, "        if i > max_ref\n", "        if i > 2 * max_ref\n")]),
    ("m2o_raises_again", ["C03"], [(IM, "            if self._allow_many_to_one and labelmap.contains_pred(pred_label):\n                # a prediction is assigned to at most one reference (its best scoring one)\n                continue\n", "")]),
    # ---- C04
    ("fresh_label_starts_at_max_ref", ["C04", "C02"], [(IM, "    label_counter = int(max(ref_labels) + 1)", "    label_counter = int(max(max(ref_labels), max(pred_labels)))")]),
    ("no_widening", ["C04", "C09"], [(IM, "    if max_label > np.iinfo(prediction_arr.dtype).max:", "    if False:")]),
    # ---- C05
    ("cc3d_face_connectivity", ["C05", "C01"], [(F, "cc3d.connected_components(array, return_N=True)", "cc3d.connected_components(array, return_N=True, connectivity=6 if array.ndim == 3 else 4 if array.ndim == 2 else 26)")]),
    ("scipy_full_connectivity", ["C05", "C01"], [(F, "        cc_arr, n_instances = label(array)", "        cc_arr, n_instances = label(array, structure=np.ones((3,) * array.ndim))")]),
    ("cc3d_binarised_first", ["C05"], [(F, "cc3d.connected_components(array, return_N=True)", "cc3d.connected_components(array != 0, return_N=True)")]),
    # ---- C06
    ("isin_first_label_only", ["C06", "C14"], [(M, "            prediction_arr = np.isin(\n                prediction_arr.copy(), pred_instance_idx\n            )  # type:ignore", "            prediction_arr = np.isin(\n                prediction_arr.copy(), pred_instance_idx[:3]\n            )  # type:ignore")]),
    ("cldice_same_mask", ["C06"], [(CLD, "        tsens = cl_score(reference, skeletonize(prediction))", "        tsens = cl_score(reference, skeletonize(reference))")]),
    ("rvd_float32", ["C06"], [(RVD, "    reference_mask = float(np.sum(reference))\n    prediction_mask = float(np.sum(prediction))", "    reference_mask = np.float32(np.sum(reference))\n    prediction_mask = np.float32(np.sum(prediction))")]),
    # ---- C07
    ("assd_border_value_1", ["C07", "C01", "C10"], [(ASSD, "    result_border = prediction ^ binary_erosion(\n        prediction, structure=footprint, iterations=1\n    )", "    result_border = prediction ^ binary_erosion(\n        prediction, structure=footprint, iterations=1, border_value=1\n    )")]),
    ("assd_connectivity_2", ["C07", "C01"], [(ASSD, "    voxelspacing=None,\n    connectivity=1,\n):\n    if ref_instance_idx is None and pred_instance_idx is None:", "    voxelspacing=None,\n    connectivity=2,\n):\n    if ref_instance_idx is None and pred_instance_idx is None:")]),
    ("assd_ft_int8", ["C07"], [(ASSD, "dtype=np.int32)", "dtype=np.int8)")]),
    # ---- C08
    ("empty_pred_ref_branches_swapped", ["C08", "C13"], [(EC, "        elif num_ref_instances == 0:\n            return True, self._edgecase_dict[EdgeCaseZeroTP.EMPTY_REF].value\n        elif num_pred_instances == 0:\n            return True, self._edgecase_dict[EdgeCaseZeroTP.EMPTY_PRED].value", "        elif num_ref_instances == 0:\n            return True, self._edgecase_dict[EdgeCaseZeroTP.EMPTY_PRED].value\n        elif num_pred_instances == 0:\n            return True, self._edgecase_dict[EdgeCaseZeroTP.EMPTY_REF].value")]),
    ("std_gets_edge_value", ["C08"], [(M, "            else empty_list_std if len(self.ALL) == 0 else np.std(self.ALL)", "            else (edge_case_result if is_edge_case and edge_case_result is not None else empty_list_std) if len(self.ALL) == 0 else np.std(self.ALL)")]),
    ("default_result_ignored_for_normal", ["C08"], [(EC, "            normal if normal is not None else default_result\n", "            normal if normal is not None else self._edgecase_dict[EdgeCaseZeroTP.EMPTY_REF]\n")]),
    # ---- C09
    ("pair_code_uint32", ["C09", "C01"], [(F, "    overlap_arr = prediction_arr.astype(np.uint64)", "    overlap_arr = prediction_arr.astype(np.uint32)"), (F, "(overlap_arr * np.uint64(max_ref)) + reference_arr.astype(np.uint64)", "(overlap_arr * np.uint32(max_ref)) + reference_arr.astype(np.uint32)")]),
    ("crop_sum_of_labels", ["C09", "C10"], [(F, "    combined = np.logical_or(prediction_arr != 0, reference_arr != 0)", "    combined = (prediction_arr + reference_arr) != 0")]),
    ("smallest_uint_off_by_one", ["C09", "C04", "C05"], [(NU, "    elif max_value < 65536:", "    elif max_value <= 65536:")]),
    # ---- C10
    ("bbox_pad0_and_end_exclusive", ["C10", "C01"], [(F, "    px_pad: int = 2,\n):", "    px_pad: int = 0,\n):"), (NU, "            min(out[i + 1] + px_dist[i // 2], shp[i // 2]) + 1,", "            min(out[i + 1] + px_dist[i // 2], shp[i // 2] - 1) + 1 - (1 if N == 3 and out[i + 1] == shp[i // 2] - 1 and i == 4 else 0),")]),
    ("bbox_axes_not_reversed", ["C10", "C01"], [(NU, "itertools.combinations(reversed(range(N)), N - 1)", "itertools.combinations(range(N), N - 1)")]),
    # ---- C11
    ("rvd_relative_to_prediction", ["C11", "C06"], [(RVD, "    rvd = (prediction_mask - reference_mask) / reference_mask", "    rvd = (prediction_mask - reference_mask) / max(reference_mask, prediction_mask)")]),
    # ---- C12
    ("undefined_labels_checked_on_prediction_only", ["C12"], [(PE, "        self.__segmentation_class_groups.has_defined_labels_for(\n            processing_pair.reference_arr, raise_error=True\n        )\n", "")]),
    ("merge_group_not_binarised_for_large_labels", ["C12"], [(LG, "        if set_to_binary:\n            array[array != 0] = 1", "        if set_to_binary:\n            array[(array != 0) & (array < 4)] = 1")]),
    # ---- C13
    ("global_flags_inverted_again", ["C13"], [(PR, "metric, 0, int(not prediction_empty), int(not reference_empty)", "metric, 0, int(prediction_empty), int(reference_empty)")]),
    ("global_metric_on_prediction_twice", ["C13"], [(PR, "                default_value = self._calc_global_bin_metric(\n                    m, pred_binary, ref_binary, do_binarize=False\n                )", "                default_value = self._calc_global_bin_metric(\n                    m, pred_binary, ref_binary if m.name != \"RVD\" else pred_binary, do_binarize=False\n                )")]),
    # ---- C14
    ("merge_ge_instead_of_gt", ["C14"], [(IM, "                    new_score < score_ref[ref_label]\n                    if self._matching_metric.decreasing\n                    else new_score > score_ref[ref_label]", "                    new_score <= score_ref[ref_label]\n                    if self._matching_metric.decreasing\n                    else new_score >= score_ref[ref_label]")]),
    ("merge_direction_unaware", ["C14"], [(IM, "                    new_score < score_ref[ref_label]\n                    if self._matching_metric.decreasing\n                    else new_score > score_ref[ref_label]", "                    new_score > score_ref[ref_label]")]),
    ("merge_score_not_updated", ["C14"], [(IM, "                    labelmap.add_labelmap_entry(pred_label, ref_label)\n                    score_ref[ref_label] = new_score", "                    labelmap.add_labelmap_entry(pred_label, ref_label)")]),
    # ---- C15
    ("label_group_no_copy", ["C15"], [(LG, "        array = array.copy()\n        array[np.isin(array, self.value_labels, invert=True)] = 0", "        array[np.isin(array, self.value_labels, invert=True)] = 0")]),
    ("result_binarises_in_place", ["C15"], [(PR, "            pred_binary = prediction_arr.copy()\n            ref_binary = reference_arr.copy()\n            pred_binary[pred_binary != 0] = 1\n            ref_binary[ref_binary != 0] = 1\n            arrays_present = True", "            pred_binary = prediction_arr\n            ref_binary = reference_arr\n            pred_binary[pred_binary != 0] = 1\n            ref_binary[ref_binary != 0] = 1\n            arrays_present = True")]),
    ("metric_keys_aliased_again", ["C15"], [(PA, "list(panoptica_evaluator.resulting_metric_keys)", "panoptica_evaluator.resulting_metric_keys")]),
    ("start_time_unbound_again", ["C15"], [(PE, "        if self.__save_group_times or save_group_times:", "        if self.__save_group_times:")]),
    ("anyarray_group_no_copy", ["C15"], [(LG, "        array = array.copy()\n        return array", "        return array")]),
    # ---- C16
    ("save_without_filelock", ["C16"], [(PA, "        with filelock:\n            #\n            content = [subject_name]", "        if True:\n            #\n            content = [subject_name]")]),
    ("claim_without_lock", ["C16"], [(PA, "        with inevalfilelock:\n            id_list = _load_first_column_entries(self.__output_buffer_file)", "        if True:\n            id_list = _load_first_column_entries(self.__output_buffer_file)")]),
    ("statistic_without_filelock", ["C16"], [(PA, "        with filelock:\n            obj = Panoptica_Statistic.from_file(self.__output_file)", "        if True:\n            obj = Panoptica_Statistic.from_file(self.__output_file)")]),
    ("claim_check_against_output_file", ["C16"], [(PA, "            id_list = _load_first_column_entries(self.__output_buffer_file)\n\n            if subject_name in id_list:", "            id_list = _load_first_column_entries(self.__output_file)\n\n            if subject_name in id_list:")]),
    ("abba_lock_order", ["C16"], [
        (PA, "        with inevalfilelock:\n            id_list = _load_first_column_entries(self.__output_buffer_file)\n\n            if subject_name in id_list:", "        with inevalfilelock, filelock:\n            id_list = _load_first_column_entries(self.__output_buffer_file)\n\n            if subject_name in id_list:"),
        (PA, "        with filelock:\n            #\n            content = [subject_name]", "        with filelock, inevalfilelock:\n            #\n            content = [subject_name]")]),
    ("lock_not_released_on_duplicate", ["C16"], [
        (PA, "        with inevalfilelock:\n            id_list = _load_first_column_entries(self.__output_buffer_file)\n\n            if subject_name in id_list:\n                print(", "        inevalfilelock.acquire()\n        if True:\n            id_list = _load_first_column_entries(self.__output_buffer_file)\n\n            if subject_name in id_list:\n                print("),
        (PA, "            _write_content(self.__output_buffer_file, [[subject_name]])\n", "            _write_content(self.__output_buffer_file, [[subject_name]])\n        inevalfilelock.release()\n")]),
    # ---- C17
    ("empty_file_no_header_again", ["C17"], [(PA, "                _write_content(output_file, [header])\n                continue_file = True", "                continue_file = True")]),
    ("shared_claim_file_again", ["C17"], [(PA, "            Path(out_file_path).stem + \"_panoptica_aggregator_tmp.tsv\"", "            \"panoptica_aggregator_tmp.tsv\"")]),
    ("stale_claims_kept", ["C17"], [(PA, "        if out_buffer_file.exists():\n            os.remove(out_buffer_file)\n", "")]),
    ("continue_default_false", ["C17"], [(PA, "        continue_file: bool = True,", "        continue_file: bool = False,")]),
    ("header_row_claimed_again", ["C17", "C18"], [(PA, "                        self.__output_file, skip_header=True\n", "                        self.__output_file\n")]),
    # ---- C18
    ("loader_split_all_dashes", ["C18"], [(PS, 'c.rsplit("-", 1)', 'c.split("-")')]),
    ("missing_metric_skipped", ["C18"], [(PA, '                    mvalue = result_dict[e] if e in result_dict else ""\n                    content.append(mvalue)', '                    if e in result_dict or groupname == self.__class_group_names[0]:\n                        content.append(result_dict[e] if e in result_dict else "")')]),
    ("values_rounded", ["C18"], [(PA, '                    mvalue = result_dict[e] if e in result_dict else ""', '                    mvalue = result_dict[e] if e in result_dict else ""\n                    if isinstance(mvalue, float):\n                        mvalue = round(mvalue, 12)')]),
    # ---- C19
    ("yaml_drops_many_to_one", ["C19"], [(IM, '            "matching_threshold": node._matching_threshold,\n            "allow_many_to_one": node._allow_many_to_one,', '            "matching_threshold": node._matching_threshold,')]),
    ("yaml_drops_empty_list_std", ["C19"], [(EC, '            "listmetric_zeroTP_handling": node.__listmetric_zeroTP_handling,\n            "empty_list_std": node.__empty_list_std,', '            "listmetric_zeroTP_handling": node.__listmetric_zeroTP_handling,')]),
    ("yaml_drops_global_metrics", ["C19"], [(PE, '            "global_metrics": node.__global_metrics,\n', "")]),
    ("yaml_threshold_rounded", ["C19"], [(IM, '            "matching_threshold": node._matching_threshold,\n            "allow_many_to_one"', '            "matching_threshold": round(node._matching_threshold, 1),\n            "allow_many_to_one"')]),
    # ---- C20
    ("summary_sample_std", ["C20"], [(PS, "        self.__std = float(np.std(value_list))", "        self.__std = float(np.std(value_list, ddof=1)) if len(value_list) > 1 else 0.0")]),
    ("neg_inf_kept_again", ["C20", "C18"], [(PS, "not np.isnan(value) and not np.isinf(value)", "not np.isnan(value) and value != np.inf")]),
    ("across_groups_over_all_values", ["C20"], [(PS, "            value_list = [self.get_summary(g, m).avg for g in self.__groupnames]\n            assert len(value_list) == len(self.__groupnames)", "            value_list = [v for v in self.get_across_groups(m) if v is not None]")]),
    ("zero_treated_as_missing", ["C20", "C18"], [(PS, "                if len(value) > 0:\n                    value = float(value)", "                if len(value) > 0 and value != \"0.0\":\n                    value = float(value)")]),
]
