"""End-to-end differential oracle: one real evaluate() against the reference pipeline."""

from __future__ import annotations

import numpy as np

from vf import pan, ref, monitors

NAMES = {"IOU": "sq", "DSC": "sq_dsc", "ASSD": "sq_assd", "RVD": "sq_rvd"}


def lib_assignment_in_ref_keys(last, pred_inst, ref_inst, pred, refa):
    """translate the labelmap the library's matcher produced (labels of its own, possibly
    cropped, arrays) into keys of the reference model's instances, via voxel sets"""
    lp, lr = last["pred"], last["ref"]
    fg_lib = np.argwhere((lp != 0) | (lr != 0))
    fg_in = np.argwhere((np.asarray(pred) != 0) | (np.asarray(refa) != 0))
    if len(fg_lib) == 0 or len(fg_in) == 0:
        return {} if not last["M"] else None
    off = fg_in.min(axis=0) - fg_lib.min(axis=0)

    def shifted(arr):
        return {
            lab: frozenset(tuple(int(x + o) for x, o in zip(c, off)) for c in cs)
            for lab, cs in ref.instances_of(ref.vox(arr)).items()
        }

    lpi, lri = shifted(lp), shifted(lr)
    pk = {v: k for k, v in pred_inst.items()}
    rk = {v: k for k, v in ref_inst.items()}
    if set(lpi.values()) != set(pk) or set(lri.values()) != set(rk):
        return None
    return {pk[lpi[p]]: rk[lri[r]] for p, r in last["M"].items()}


def expected(pred, refa, cfg, lib_last=None):
    """reference computation for one configuration.

    returns dict with: pred_inst, ref_inst, table, elig, unique(bool), groups (when unique),
    n_pred, n_ref"""
    ndim = np.asarray(refa).ndim
    it = cfg["input"]
    pi, ri = ref.input_instances(pred, refa, it, cfg.get("backend"))
    out = {"pred_inst": pi, "ref_inst": ri, "ndim": ndim}
    if it == "MATCHED_INSTANCE":
        both = sorted(set(pi) & set(ri))
        out.update(unique=True, M={k: k for k in both}, table={}, elig={}, many_to_one=False)
        return out
    m = cfg["matcher"]
    metric, thr = m["metric"], m["thr"]
    m2o = bool(m.get("m2o", False))
    table = ref.score_table(metric, ri, pi, ndim)
    exact = metric in ("IOU", "DSC") or cfg.get("exact", False)
    elig = ref.eligibility(metric, table, thr, exact)
    ambiguous = any(v is None for v in elig.values()) or ref.has_conflicting_tie(metric, table, elig, m2o)
    out.update(table=table, elig=elig, many_to_one=m2o, unique=not ambiguous)
    if not ambiguous:
        out["M"] = ref.greedy(metric, table, elig, m2o)
    return out


def groups_of(M, pi, ri):
    per_ref: dict = {}
    for p, r in M.items():
        per_ref.setdefault(r, set()).update(pi[p])
    return [(ri[r], frozenset(P)) for r, P in sorted(per_ref.items())]


def compare_result(ctx, prop, r, exp, metrics, det, feats, tag="", lists_only=False):
    """compare a read_result dict with the expected numbers; returns number of differences.
    lists_only: judge only the per-instance value lists and their aggregates of `metrics`
    (used by properties that speak about one metric, not about counts)"""
    nd = 0

    def bad(kind, **extra):
        nonlocal nd
        nd += 1
        if nd == 1:
            ctx.viol(kind + tag, dict(det, **extra), prop=prop, features=feats)

    if lists_only:
        if r["tp"] != exp["tp"]:
            ctx.count("lists_only.skipped_tp_differs")
            return 0
    else:
        for k in ("num_pred_instances", "num_ref_instances", "tp", "fp", "fn"):
            if r[k] != exp[k]:
                bad("count_differs", key=k, got=r[k], expected=exp[k])
    if nd:
        return nd
    for m in metrics:
        tol = dict(rel=1e-9, abs_=1e-9) if m == "ASSD" else dict(abs_=1e-12)
        if not pan.same_list(r["lists"][m], exp["lists"][m], **tol):
            bad("per_instance_values_differ", metric=m, got=r["lists"][m], expected=exp["lists"][m])
    for m in metrics:
        for key in (NAMES[m], NAMES[m] + "_std"):
            if not pan.same(r[key], exp[key], rel=1e-9, abs_=1e-9):
                bad("aggregate_differs", key=key, got=r[key], expected=exp[key])
    if lists_only:
        return nd
    if not pan.same(r["rq"], exp["rq"], abs_=1e-12):
        bad("aggregate_differs", key="rq", got=r["rq"], expected=exp["rq"])
    for pk in ("pq", "pq_dsc"):
        if pk in exp:
            g = r[pk]
            e = exp[pk]
            if e is None:
                if not (isinstance(g, str) or g is None):
                    bad("aggregate_differs", key=pk, got=g, expected=None)
            elif not pan.same(g, e, rel=1e-9, abs_=1e-12):
                bad("aggregate_differs", key=pk, got=g, expected=e)
    return nd


def check_evaluate(ctx, prop, pred, refa, cfg, evaluator=None, use_real_pool=False, lists_only=False):
    """run the real evaluate() on (pred, ref) under cfg and judge it against the reference.
    returns (read_result dict or None, info dict)"""
    metrics = cfg.get("metrics", pan.DEFAULT_METRICS)
    ev = evaluator or pan.make_evaluator(cfg)
    monitors.S.last_match = None
    feats = {
        "input": cfg["input"],
        "metric": (cfg.get("matcher") or {}).get("metric"),
        "many_to_one": bool((cfg.get("matcher") or {}).get("m2o")),
        "dm": cfg.get("dm"),
        "backend": cfg.get("backend") or "default",
        "ndim": np.asarray(refa).ndim,
    }
    det = {"pred": np.asarray(pred), "ref": np.asarray(refa), "cfg": cfg}
    ctx.count("evaluations")
    try:
        if use_real_pool:
            with pan.real_pool():
                out = pan.evaluate(ev, pred, refa)
        else:
            out = pan.evaluate(ev, pred, refa)
    except Exception as e:  # noqa: BLE001
        ctx.viol("evaluate_raised", dict(det, exc=repr(e)[:400]), prop=prop, features=dict(feats, exc=type(e).__name__))
        return None, {}
    res = out[next(iter(out))][0]
    r = pan.read_result(res, metrics)
    exp0 = expected(pred, refa, cfg)
    pi, ri = exp0["pred_inst"], exp0["ref_inst"]
    info = {"unique": exp0["unique"], "n_pred": len(pi), "n_ref": len(ri), "candidates": len(exp0["table"])}
    if exp0["unique"]:
        M = exp0["M"]
        ctx.count("unique_matching")
    else:
        ctx.count("tied_or_guard_band")
        last = monitors.S.last_match
        if last is None:
            if pi and ri:
                ctx.count("tied.no_labelmap")
            return r, info
        M = lib_assignment_in_ref_keys(last, pi, ri, pred, refa)
        if M is None:
            ctx.viol("library_instances_differ_from_documented_instances", det, prop=prop, features=feats)
            return r, info
        probs = ref.greedy_consistency(cfg["matcher"]["metric"], exp0["table"], exp0["elig"], M, exp0["many_to_one"])
        if probs:
            ctx.viol("assignment_not_best_first_consistent", dict(det, problems=probs[:4], M=M), prop=prop, features=feats)
            return r, info
    n_pred = len(pi) - (len(M) - len(set(M.values()))) if cfg["input"] != "MATCHED_INSTANCE" else len(pi)
    exp = ref.evaluate_assignment(
        groups_of(M, pi, ri), n_pred, len(ri), exp0["ndim"], metrics, cfg.get("dm"), cfg.get("dt"),
        handler=cfg.get("handler"), empty_list_std=cfg.get("std", "NAN"),
    )
    info["tp"] = exp["tp"]
    info["matched"] = len(set(M.values()))
    if exp["decision_guard"] and not cfg.get("exact"):
        ctx.count("skipped_decision_guard_band")
        return r, info
    compare_result(ctx, prop, r, exp, metrics, dict(det, M=M), feats, lists_only=lists_only)
    info["exp"] = exp
    return r, info
