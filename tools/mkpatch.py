#!/venv/bin/python
"""usage: mkpatch.py <out.diff> <file relative to repo> <old> <new> [<file> <old> <new> ...]
creates a unified diff against /repo HEAD by string replacement (each old must occur exactly once)"""
import subprocess, sys, tempfile, os, shutil
out = os.path.abspath(sys.argv[1]); args = sys.argv[2:]
d = tempfile.mkdtemp(prefix="mkpatch_", dir="/tmp")
try:
    subprocess.check_call(["git", "-C", "/repo", "worktree", "add", "-q", "--detach", d + "/r", "HEAD"], stdout=subprocess.DEVNULL, stderr=subprocess.DEVNULL)
    for i in range(0, len(args), 3):
        f, old, new = args[i:i+3]
        p = os.path.join(d, "r", f); s = open(p).read()
        old = old.encode().decode("unicode_escape"); new = new.encode().decode("unicode_escape")
        assert s.count(old) == 1, (f, old, s.count(old))
        open(p, "w").write(s.replace(old, new))
    diff = subprocess.check_output(["git", "-C", d + "/r", "diff"])
    open(out, "wb").write(diff)
    print("wrote", out, len(diff), "bytes")
finally:
    subprocess.call(["git", "-C", "/repo", "worktree", "remove", "--force", d + "/r"]); shutil.rmtree(d, ignore_errors=True)
