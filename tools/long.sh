#!/bin/sh
# background job: seed sweep of the quick tier, then every thorough tier once (no evidence written)
cd "$(dirname "$0")/.."
tools/sweep.sh quick
echo "== THOROUGH"
VERIF_NO_EVIDENCE=1 tools/runall.sh thorough
echo "long done"
