#!/bin/sh
# runs the repository's own suite (guard off) and prints the summary line; expected: 80 passed, 3 failed (always_fail set)
cd "${1:-/repo}" && /venv/bin/python -m pytest -q -p no:cacheprovider --timeout=900 --continue-on-collection-errors 2>&1 | tail -6
