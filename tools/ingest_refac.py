#!/venv/bin/python
"""usage: ingest_refac.py <Cxx> <A|B|C> [extra checks ...]
Confirms a sub-agent's *property-preserving refactoring* in a fresh scratch worktree of /repo (patch applies;
repository tests still pass; its own property demo passes with the change), stores it as
/verif/refactorings/<Cxx>_<X>/ and runs the quick check(s) against it: the expected verdict is 'held'
(exit 0).  An alarm here is a false alarm of the machinery unless the refactoring really breaks the property."""
import json, os, re, shutil, subprocess, sys, tempfile, time

prop, var = sys.argv[1], sys.argv[2]
extra = sys.argv[3:]
BASE = os.environ.get("SEED_BASE", "/tmp/seedR")
TAG = os.environ.get("SEED_TAG", "")
src = f"{BASE}/{prop}/out"
patch, demo, metatxt = f"{src}/{var}.diff", f"{src}/{var}_demo.py", f"{src}/{var}_meta.txt"
for f in (patch, demo):
    if not os.path.exists(f):
        sys.exit(f"missing {f}")
PY = "/venv/bin/python"
DES = ["--deselect", "unit_tests/test_panoptic_aggregator.py::Test_Example_Scripts", "--deselect", "unit_tests/test_panoptic_evaluator.py::Test_Example_Scripts"]
d = tempfile.mkdtemp(prefix="ingest_", dir="/tmp")
repo = d + "/repo"
subprocess.check_call(["git", "-C", "/repo", "worktree", "add", "-q", "--detach", repo, os.environ.get("BASE_COMMIT", "HEAD")], stdout=subprocess.DEVNULL, stderr=subprocess.DEVNULL)
ran = []
try:
    env = dict(os.environ, PYTHONPATH=repo, PANOPTICA_CITATION_REMINDER="false")
    os.makedirs(repo + "/out")
    shutil.copy(demo, repo + f"/out/{var}_demo.py")
    _t = open(repo + f"/out/{var}_demo.py").read().replace(f"{BASE}/{prop}/", "/").replace(f"{BASE}/{prop}", "/")  # demos may assert their own worktree path
    open(repo + f"/out/{var}_demo.py", "w").write(_t)
    ap = subprocess.run(["git", "-C", repo, "apply", patch], capture_output=True, text=True)
    if ap.returncode != 0:
        sys.exit("patch does not apply: " + ap.stderr)
    t = subprocess.run([PY, "-m", "pytest", "-q", "-p", "no:cacheprovider", "--timeout=900", "unit_tests"] + DES, cwd=repo, env=env, capture_output=True, text=True)
    m = re.search(r"(\d+) passed", t.stdout); f = re.search(r"(\d+) failed", t.stdout)
    passed, failed = int(m.group(1)) if m else 0, int(f.group(1)) if f else 0
    ran.append(f"repository tests with the change: {passed} passed, {failed} failed")
    r1 = subprocess.run([PY, f"out/{var}_demo.py"], cwd=repo, env=env, capture_output=True, text=True, timeout=900)
    ran.append(f"property demo with the change: exit {r1.returncode}")
    confirmed = r1.returncode == 0 and passed == 80 and failed == 0
    print("\n".join(ran)); print("CONFIRMED" if confirmed else "NOT CONFIRMED")
    if not confirmed:
        sys.exit(1)
    results = {}
    for c in [prop] + extra:
        envc = dict(os.environ, VERIF_REPO=repo, VERIF_NO_EVIDENCE="1")
        t0 = time.monotonic()
        p = subprocess.run(["/verif/check", c, "--tier", os.environ.get("TIER", "quick")], cwd="/verif", env=envc, capture_output=True, text=True)
        kinds = sorted(set(re.findall(r"kind=(\S+)", p.stdout)))
        inc = re.findall(r"INCONCLUSIVE property=\S+ reason=(.{0,200})", p.stdout)
        results[c] = {"verdict": {0: "held", 1: "ALARM", 2: "inconclusive"}.get(p.returncode, "?"), "wall_s": round(time.monotonic() - t0, 1), "kinds": kinds[:5], "inconclusive": inc[:2]}
        print(c, results[c])
    out = f"/verif/refactorings/{prop}_{TAG}{var}"
    os.makedirs(out, exist_ok=True)
    shutil.copy(patch, out + "/patch.diff"); shutil.copy(demo, out + "/demo.py")
    meta = {"property": prop, "variant": TAG + var, "kind": "property-preserving refactoring (expected verdict: held)",
            "source": "independent sub-agent given only the property text and a scratch worktree",
            "description": open(metatxt).read() if os.path.exists(metatxt) else "", "confirmed_by_me": ran,
            "checks": [prop] + extra, "check_results_at_ingest": results}
    json.dump(meta, open(out + "/meta.json", "w"), indent=1)
finally:
    subprocess.call(["git", "-C", "/repo", "worktree", "remove", "--force", repo], stdout=subprocess.DEVNULL, stderr=subprocess.DEVNULL)
    shutil.rmtree(d, ignore_errors=True)
