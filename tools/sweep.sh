#!/bin/sh
# runs every quick check for several VERIF_SEED values (and one random PYTHONHASHSEED); prints only non-held results
cd "$(dirname "$0")/.."
for S in ${SEEDS:-0 1 2 3 7 12345}; do
  echo "== VERIF_SEED=$S"
  VERIF_SEED=$S VERIF_NO_EVIDENCE=1 tools/runall.sh "${1:-quick}" | grep -v "verdict=held" 
done
echo "== VERIF_SEED=5 PYTHONHASHSEED=random"
PYTHONHASHSEED=random VERIF_SEED=5 VERIF_NO_EVIDENCE=1 tools/runall.sh "${1:-quick}" | grep -v "verdict=held"
echo "sweep done"
