#!/venv/bin/python
"""regenerates MANIFEST.json from the property drivers present under vf/props"""
import importlib, json, os, sys
HERE = os.path.dirname(os.path.dirname(os.path.abspath(__file__)))
sys.path.insert(0, HERE)
ids = [json.loads(l)["id"] for l in open(os.path.join(HERE, "properties.jsonl"))]
BASE = "cd /repo && /venv/bin/python -m pytest -ra -q -p no:cacheprovider --timeout=900 --continue-on-collection-errors"
TRUST = ("trusted: CPython, numpy, scipy, cc3d, scikit-image skeletons, the OS file semantics, and the reference model "
         "vf/ref.py (self-tested in setup.sh); multiprocessing.Pool replaced by a serial starmap except where stated "
         "(substitution validated by C15). Verdict = held on the executions observed, never 'verified'.")
checks, na = [], []
for i in ids:
    p = os.path.join(HERE, "vf", "props", i.lower() + ".py")
    if not os.path.exists(p):
        na.append({"property_id": i, "reason": "check not built yet in this commit (work in progress, see DESIGN.md)"})
        continue
    src = open(p).read()
    def const(name, default=""):
        import ast
        for node in ast.parse(src).body:
            if isinstance(node, ast.Assign) and getattr(node.targets[0], "id", None) == name:
                return ast.literal_eval(node.value)
        return default
    checks.append({
        "property_id": i,
        "quick_cmd": f"./check {i} --tier quick",
        "thorough_cmd": f"./check {i} --tier thorough",
        "evidence_file": f"/verif/evidence/{i}.json",
        "replay_cmd_template": f"./check {i} --replay {{path}}",
        "engine": "vf",
        "level_claimed": {"category": const("LEVEL", "exploration"), "text": const("LEVEL_TEXT", const("RULE")), "design_ref": f"DESIGN.md section 4, {i}"},
        "level_note": TRUST,
        "technique": const("TECHNIQUE", "runtime monitoring: differential/metamorphic monitor on the real code under generated and enumerated workloads"),
    })
m = {
    "version": 1,
    "setup_cmd": "./setup.sh",
    "hooks": {"guard": "PANOPTICA_VERIF", "enable": "monitors are attached from /verif at import time by rebinding class/module attributes; there are no source hooks in /repo, so nothing has to be enabled", "baseline_off_cmd": BASE, "source_commits": [], "add_only": True},
    "engines": [{"name": "vf", "path": "/verif/vf", "serves_properties": [c["property_id"] for c in checks], "kind_free_text": "python runtime-monitoring harness: monitors wrapped around the real panoptica functions, executable reference model, generated/enumerated/fault-injected workloads, sharded over subprocesses"}],
    "checks": checks,
    "not_applicable": na,
    "notes": "exit codes: 0 held (possibly with KNOWN-FINDING lines), 1 VIOLATION, 2 INCONCLUSIVE (deciding monitor observed too little / watchdog). VERIF_SEED, VERIF_TIER, VERIF_REPO, VERIF_SHARDS are honoured.",
}
json.dump(m, open(os.path.join(HERE, "MANIFEST.json"), "w"), indent=1)
print("checks:", [c["property_id"] for c in checks])
