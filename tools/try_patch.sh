#!/bin/sh
# usage: tools/try_patch.sh <patch.diff> <Cxx> [more checks...]   -- applies the patch to a scratch copy of /repo (never to /repo),
# runs the repository's own tests and the quick checks against the copy, removes the copy.
set -u
PATCH="$(realpath "$1")"; shift
S="$(mktemp -d /tmp/scratch_XXXXXX)"
git -C /repo worktree add -q --detach "$S/repo" HEAD >/dev/null 2>&1 || { echo "worktree failed"; exit 2; }
cd "$S/repo" && git apply "$PATCH" || { echo "PATCH DOES NOT APPLY"; git -C /repo worktree remove --force "$S/repo"; rm -rf "$S"; exit 2; }
T="$(cd "$S/repo" && PYTHONPATH="$S/repo" /venv/bin/python -m pytest -q -p no:cacheprovider --timeout=900 --continue-on-collection-errors -x -q --deselect unit_tests/test_panoptic_aggregator.py::Test_Example_Scripts --deselect unit_tests/test_panoptic_evaluator.py::Test_Example_Scripts 2>&1 | grep -E "passed|failed|error" | tail -1)"
echo "repo tests with patch: $T"
for C in "$@"; do
  (cd /verif && VERIF_REPO="$S/repo" VERIF_NO_EVIDENCE=1 ./check "$C" --tier "${TIER:-quick}" 2>&1 | grep -E "verdict=|^VIOLATION|^INCONCLUSIVE" | cut -c1-260 | head -4)
done
git -C /repo worktree remove --force "$S/repo"; rm -rf "$S"
