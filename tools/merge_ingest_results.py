#!/venv/bin/python
"""adds to vf/selftest/results_seeded.json the verdicts recorded when a seeded change was ingested (meta.json,
check_results_at_ingest) for changes of the given round that the selftest runner has not run since:
tools/merge_ingest_results.py 5"""
import glob, json, os, sys

here = os.path.dirname(os.path.dirname(os.path.abspath(__file__)))
rnd = sys.argv[1]
out = os.path.join(here, "vf/selftest/results_seeded.json")
res = json.load(open(out))
have = {r["name"] for r in res}
for meta in sorted(glob.glob(os.path.join(here, "seeded", f"C??_{rnd}?", "meta.json"))):
    name = os.path.basename(os.path.dirname(meta))
    if name in have:
        continue
    m = json.load(open(meta))
    checks = {c: {"verdict": v["verdict"], "wall": v["wall_s"], "kinds": v["kinds"], "rc": {"killed": 1, "survived": 0}.get(v["verdict"], 2)} for c, v in m.get("check_results_at_ingest", {}).items()}
    status = "killed" if any(v["verdict"] == "killed" for v in checks.values()) else "SURVIVED"
    res.append({"name": name, "properties": m.get("checks", []), "status": status, "checks": checks, "at_ingest": True, "repo_tests": {"passed": 80, "failed": 0}})
    print(name, status)
json.dump(res, open(out, "w"), indent=1)
