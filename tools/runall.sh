#!/bin/sh
# runs every registered check at the given tier (default quick), prints one line per check
cd "$(dirname "$0")/.."
TIER="${1:-quick}"
for C in $(/venv/bin/python -c "import json;print(' '.join(c['property_id'] for c in json.load(open('MANIFEST.json'))['checks']))"); do
  ./check "$C" --tier "$TIER" 2>&1 | grep -E "verdict=|^VIOLATION|^INCONCLUSIVE|^KNOWN" | cut -c1-220 | head -5
done
