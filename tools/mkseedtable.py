#!/venv/bin/python
"""prints a markdown table of the kept seeded changes of one round with the check that reports each
(from vf/selftest/results_seeded.json): tools/mkseedtable.py 3"""
import glob, json, os, re, sys

here = os.path.dirname(os.path.dirname(os.path.abspath(__file__)))
rnd = sys.argv[1]
res = {r["name"]: r for r in json.load(open(os.path.join(here, "vf/selftest/results_seeded.json")))}
print("| change | what it is (file: mechanism) | reported by |")
print("|---|---|---|")
for meta in sorted(glob.glob(os.path.join(here, "seeded", f"C??_{rnd}?", "meta.json"))):
    name = os.path.basename(os.path.dirname(meta))
    m = json.load(open(meta))
    d = " ".join(m["description"].split())
    d = re.sub(r"^Change [ABC]\s*", "", d)
    d = re.sub(r"^\((?:angles?[^)]*)\)[:.]?\s*", "", d)
    d = d.split(" Looks innocent")[0].split(" Why innocent")[0].split(" Why it looks")[0].split(" Innocent")[0].split(" Looks inno")[0]
    if len(d) > 230:
        d = d[:227].rsplit(" ", 1)[0] + " ..."
    r = res.get(name, {})
    rep = []
    for c, v in r.get("checks", {}).items():
        if v["verdict"] == "killed":
            rep.append(f"{c} ({', '.join(v['kinds'][:2])})")
    if not rep:
        rep = ["**not reported**" + (": " + m["note"] if m.get("note") else "")]
    print(f"| {name} | {d.replace('|', '/')} | {'; '.join(rep)} |")
